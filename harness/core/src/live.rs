//! Non-orchestrated streams (no yield-point callback):
//!  * `live`: the real set_reporter with its background thread and the real flush():
//!    multi-threaded programs with hand-off of spans between threads and threads that exit
//!    right after finishing; every finished span of a sampled trace must be delivered
//!    exactly once, either within a generous multiple of the report interval without any
//!    further call, or by the time flush() returns (C01, the part the orchestrated streams
//!    cannot exercise);
//!  * `teardown`: tracing calls issued from a thread-local destructor, registered before or
//!    after fastrace's own thread-locals, must not panic (C07).
use std::collections::HashMap;
use std::io::Write;
use std::panic::{catch_unwind, AssertUnwindSafe};
use std::sync::mpsc;
use std::sync::{Arc, Mutex};
use std::time::{Duration, Instant};

use fastrace::collector::{Config, SpanRecord};
use fastrace::prelude::*;

use crate::orch::CapReporter;
use crate::rng::Rng;
use std::sync::atomic::{AtomicBool, AtomicU64, Ordering};

/// captures the batches; when `stall_ms` is non-zero the next non-empty report call blocks for
/// that long (once), with `in_report` raised meanwhile: a slow reporter
struct LiveReporter {
    reports: Arc<Mutex<Vec<Vec<SpanRecord>>>>,
    stall_ms: Arc<AtomicU64>,
    in_report: Arc<AtomicBool>,
}
impl fastrace::collector::Reporter for LiveReporter {
    fn report(&mut self, spans: Vec<SpanRecord>) {
        let nonempty = !spans.is_empty();
        self.reports.lock().unwrap().push(spans);
        if nonempty {
            let ms = self.stall_ms.swap(0, Ordering::SeqCst);
            if ms > 0 {
                self.in_report.store(true, Ordering::SeqCst);
                std::thread::sleep(Duration::from_millis(ms));
                self.in_report.store(false, Ordering::SeqCst);
            }
        }
    }
}

fn key(r: &SpanRecord) -> (u128, String) {
    (r.trace_id.0, r.name.to_string())
}

pub fn live(seed: u64, n: usize, out: &mut dyn Write) {
    fastrace::verif::set_callback(None);
    let reports: Arc<Mutex<Vec<Vec<SpanRecord>>>> = Arc::new(Mutex::new(Vec::new()));
    let interval = Duration::from_millis(20);
    let stall_ms = Arc::new(AtomicU64::new(0));
    let in_report = Arc::new(AtomicBool::new(false));
    // the reporter is installed twice: first with an interval of an hour, then with the one
    // the run relies on -- the configuration that counts is that of the LAST set_reporter
    fastrace::set_reporter(LiveReporter { reports: Arc::new(Mutex::new(Vec::new())), stall_ms: Arc::new(AtomicU64::new(0)), in_report: Arc::new(AtomicBool::new(false)) },
        Config::default().report_interval(Duration::from_secs(3600)));
    fastrace::set_reporter(LiveReporter { reports: reports.clone(), stall_ms: stall_ms.clone(), in_report: in_report.clone() },
        Config::default().report_interval(interval));
    let mut r = Rng::new(seed);
    let mut delivered: HashMap<(u128, String), usize> = HashMap::new();
    let drain = |delivered: &mut HashMap<(u128, String), usize>| {
        let mut g = reports.lock().unwrap();
        for b in g.drain(..) {
            for rec in b {
                *delivered.entry(key(&rec)).or_insert(0) += 1;
            }
        }
    };
    for k in 0..n {
        let trace = ((seed as u128) << 64) | (k as u128 + 1);
        if k % 6 == 3 {
            // a slow reporter: one report call blocks while a short-lived thread finishes more
            // spans (after that cycle's drain); a flush() called afterwards must still return
            // only once those have been delivered, however long the reporter takes
            let ms = if r.chance(1, 2) { 700 } else { 150 };
            let root = Span::root(format!("slow-root-{k}"), SpanContext::new(TraceId(trace), SpanId(7)));
            let first = Span::enter_with_parent(format!("slow-first-{k}"), &root);
            let late = Span::enter_with_parent(format!("slow-late-{k}"), &root);
            stall_ms.store(ms, Ordering::SeqCst);
            drop(first);
            let t0 = Instant::now();
            while !in_report.load(Ordering::SeqCst) && t0.elapsed() < Duration::from_millis(10000) {
                std::thread::sleep(Duration::from_millis(1));
            }
            let stalled = in_report.load(Ordering::SeqCst);
            let h = std::thread::spawn(move || {
                {
                    let _g = late.set_local_parent();
                    let _l = LocalSpan::enter_with_local_parent(format!("slow-local-{k}"));
                }
                drop(late);
            });
            let _ = h.join();
            drop(root);
            let t1 = Instant::now();
            fastrace::flush();
            let flush_ms = t1.elapsed().as_millis();
            drain(&mut delivered);
            let expected: Vec<(u128, String)> = ["slow-root", "slow-first", "slow-late", "slow-local"].iter().map(|n| (trace, format!("{n}-{k}"))).collect();
            let missing: Vec<&String> = expected.iter().filter(|e| delivered.get(*e).copied().unwrap_or(0) == 0).map(|e| &e.1).collect();
            let dup: Vec<&String> = expected.iter().filter(|e| delivered.get(*e).copied().unwrap_or(0) > 1).map(|e| &e.1).collect();
            let verdict = if missing.is_empty() && dup.is_empty() { "delivered-once".to_string() } else { format!("VIOLATION missing={:?} duplicated={:?}", missing, dup) };
            let _ = writeln!(out, "L scenario={} slow-reporter stall_ms={} stalled={} flush_ms={} => {}", k, ms, stalled, flush_ms, verdict);
            stall_ms.store(0, Ordering::SeqCst);
            continue;
        }
        if k % 6 == 1 {
            // a thread issues its first tracing call (which creates and registers its command
            // channel) while a collector cycle is draining the registered channels: everything
            // it records must still be delivered.  The drain is caught with the Pop yield point;
            // the new thread is given 100 ms inside it (it may have to wait for the drain to end).
            let started = Arc::new(AtomicBool::new(false));
            let done = Arc::new(AtomicBool::new(false));
            let (st2, dn2) = (started.clone(), done.clone());
            let handle: Arc<Mutex<Option<std::thread::JoinHandle<()>>>> = Arc::new(Mutex::new(None));
            let h2 = handle.clone();
            // every other time the new thread only ATTACHES to a span of another thread (span
            // sets, no start / commit of its own) and then stays alive and idle until the
            // delivery has been checked
            let attach_only = k % 12 == 7;
            let shared = Arc::new(Span::root(format!("late-shared-{k}"), SpanContext::new(TraceId(trace ^ 2), SpanId(9))));
            let shared2 = shared.clone();
            let release = Arc::new(AtomicBool::new(false));
            let release2 = release.clone();
            fastrace::verif::set_callback(Some(Arc::new(move |p| {
                if p == fastrace::verif::Point::Pop && !st2.swap(true, Ordering::SeqCst) {
                    let dn3 = dn2.clone();
                    let (shared3, release3) = (shared2.clone(), release2.clone());
                    let jh = std::thread::spawn(move || {
                        if attach_only {
                            fastrace::verif::without_yield(|| {
                                shared3.add_properties(|| [(format!("late-key-{k}"), "late-value".to_string())]);
                                shared3.add_event(Event::new(format!("late-event-{k}")));
                            });
                            drop(shared3);
                            dn3.store(true, Ordering::SeqCst);
                            while !release3.load(Ordering::SeqCst) {
                                std::thread::sleep(Duration::from_millis(1));
                            }
                            return;
                        }
                        fastrace::verif::without_yield(|| {
                            let root = Span::root(format!("late-root-{k}"), SpanContext::new(TraceId(trace), SpanId(9)));
                            {
                                let _g = root.set_local_parent();
                                let _l = LocalSpan::enter_with_local_parent(format!("late-local-{k}"));
                            }
                            let child = Span::enter_with_parent(format!("late-child-{k}"), &root);
                            drop(child);
                            drop(root);
                        });
                        dn3.store(true, Ordering::SeqCst);
                    });
                    *h2.lock().unwrap() = Some(jh);
                    let t0 = Instant::now();
                    while !dn2.load(Ordering::SeqCst) && t0.elapsed() < Duration::from_millis(100) {
                        std::thread::sleep(Duration::from_millis(1));
                    }
                }
            })));
            // something for the drain to pop
            let warm = Span::root(format!("late-warm-{k}"), SpanContext::new(TraceId(trace ^ 1), SpanId(3)));
            drop(warm);
            let t0 = Instant::now();
            while !started.load(Ordering::SeqCst) && t0.elapsed() < Duration::from_millis(10000) {
                std::thread::sleep(Duration::from_millis(1));
                if t0.elapsed() > Duration::from_millis(200) {
                    // keep the drain supplied in case the first cycle had already passed
                    drop(Span::root(format!("late-warm2-{k}"), SpanContext::new(TraceId(trace ^ 1), SpanId(4))));
                    std::thread::sleep(Duration::from_millis(20));
                }
            }
            let caught = started.load(Ordering::SeqCst);
            fastrace::verif::set_callback(None);
            if attach_only {
                let t0 = Instant::now();
                while caught && !done.load(Ordering::SeqCst) && t0.elapsed() < Duration::from_millis(10000) {
                    std::thread::sleep(Duration::from_millis(1));
                }
                // the attaching thread is still alive; the span it attached to finishes now
                drop(shared);
                fastrace::flush();
                fastrace::flush();
                let mut bad: Vec<String> = vec![];
                {
                    let g = reports.lock().unwrap();
                    let recs: Vec<&SpanRecord> = g.iter().flat_map(|b| b.iter()).filter(|x| x.name == format!("late-shared-{k}")).collect();
                    if recs.len() != 1 {
                        bad.push(format!("late-shared-{k} delivered {} times", recs.len()));
                    } else if caught {
                        if !recs[0].properties.iter().any(|(a, _)| *a == format!("late-key-{k}")) {
                            bad.push("the property attached by a thread that registered during the drain is missing".to_string());
                        }
                        if !recs[0].events.iter().any(|e| e.name == format!("late-event-{k}")) {
                            bad.push("the event attached by a thread that registered during the drain is missing".to_string());
                        }
                    }
                }
                release.store(true, Ordering::SeqCst);
                if let Some(jh) = handle.lock().unwrap().take() {
                    let _ = jh.join();
                }
                drain(&mut delivered);
                let verdict = if bad.is_empty() { "delivered-once".to_string() } else { format!("VIOLATION {}", bad.join("; ")) };
                let _ = writeln!(out, "L scenario={} attach-during-drain caught={} => {}", k, caught, verdict);
                continue;
            }
            drop(shared);
            // the thread has finished its spans (its JoinHandle may not have been stored yet when
            // `started` was seen: wait for the thread's own signal, then join)
            let t0 = Instant::now();
            while caught && !done.load(Ordering::SeqCst) && t0.elapsed() < Duration::from_millis(10000) {
                std::thread::sleep(Duration::from_millis(1));
            }
            let t0 = Instant::now();
            loop {
                if let Some(jh) = handle.lock().unwrap().take() {
                    let _ = jh.join();
                    break;
                }
                if !caught || t0.elapsed() > Duration::from_millis(2000) {
                    break;
                }
                std::thread::sleep(Duration::from_millis(1));
            }
            fastrace::flush();
            drain(&mut delivered);
            let expected: Vec<(u128, String)> = ["late-root", "late-child", "late-local"].iter().map(|n| (trace, format!("{n}-{k}"))).collect();
            let missing: Vec<&String> = expected.iter().filter(|e| delivered.get(*e).copied().unwrap_or(0) == 0).map(|e| &e.1).collect();
            let dup: Vec<&String> = expected.iter().filter(|e| delivered.get(*e).copied().unwrap_or(0) > 1).map(|e| &e.1).collect();
            let verdict = if !caught { "delivered-once".to_string() } else if missing.is_empty() && dup.is_empty() { "delivered-once".to_string() } else { format!("VIOLATION missing={:?} duplicated={:?}", missing, dup) };
            let _ = writeln!(out, "L scenario={} registration-during-drain caught={} => {}", k, caught, verdict);
            continue;
        }
        let use_flush = r.chance(1, 2);
        let nthreads = 1 + r.below(3);
        let mut expected: Vec<(u128, String)> = vec![];
        let root = Span::root(format!("root-{k}"), SpanContext::new(TraceId(trace), SpanId(7)));
        expected.push((trace, format!("root-{k}")));
        let (tx, rx) = mpsc::channel::<Span>();
        let mut handles = vec![];
        for t in 0..nthreads {
            let child = Span::enter_with_parent(format!("child-{k}-{t}"), &root);
            expected.push((trace, format!("child-{k}-{t}")));
            let nlocal = r.below(4);
            for j in 0..nlocal {
                expected.push((trace, format!("local-{k}-{t}-{j}")));
            }
            let handoff = r.chance(1, 2);
            let tx2 = tx.clone();
            handles.push(std::thread::spawn(move || {
                {
                    let _g = child.set_local_parent();
                    for j in 0..nlocal {
                        let _l = LocalSpan::enter_with_local_parent(format!("local-{k}-{t}-{j}"));
                    }
                }
                if handoff {
                    // finished by another thread; this one exits at once
                    let _ = tx2.send(child);
                } else {
                    drop(child);
                }
                // the thread exits right after its last push
            }));
        }
        drop(tx);
        for h in handles {
            let _ = h.join();
        }
        for s in rx.iter() {
            drop(s);
        }
        if r.chance(1, 2) {
            drop(root);
        } else {
            let h = std::thread::spawn(move || drop(root));
            let _ = h.join();
        }
        let t0 = Instant::now();
        let mut waited_ms = 0u128;
        if use_flush {
            fastrace::flush();
            drain(&mut delivered);
        } else {
            // no further call: the background thread must deliver on its own
            let deadline = Duration::from_millis(10000);
            loop {
                drain(&mut delivered);
                if expected.iter().all(|e| delivered.get(e).copied().unwrap_or(0) >= 1) || t0.elapsed() > deadline {
                    break;
                }
                std::thread::sleep(Duration::from_millis(2));
            }
            waited_ms = t0.elapsed().as_millis();
        }
        let missing: Vec<&(u128, String)> = expected.iter().filter(|e| delivered.get(*e).copied().unwrap_or(0) == 0).collect();
        let dup: Vec<&(u128, String)> = expected.iter().filter(|e| delivered.get(*e).copied().unwrap_or(0) > 1).collect();
        let verdict = if missing.is_empty() && dup.is_empty() {
            "delivered-once".to_string()
        } else {
            format!("VIOLATION missing={:?} duplicated={:?}", missing.iter().map(|m| &m.1).collect::<Vec<_>>(), dup.iter().map(|m| &m.1).collect::<Vec<_>>())
        };
        let _ = writeln!(out, "L scenario={} threads={} spans={} mode={} waited_ms={} => {}", k, nthreads, expected.len(),
            if use_flush { "flush" } else { "interval" }, waited_ms, verdict);
    }
    // nothing may arrive twice later on either
    std::thread::sleep(Duration::from_millis(60));
    drain(&mut delivered);
    let late_dups = delivered.values().filter(|c| **c > 1).count();
    let _ = writeln!(out, "L final duplicates={} => {}", late_dups, if late_dups == 0 { "delivered-once" } else { "VIOLATION duplicates after the fact" });
    let _ = writeln!(out, "#stat live:scenarios {}", n);
}

// ---------------------------------------------------------------- thread-local teardown
struct AtExit {
    calls: Vec<u8>,
    result: Arc<Mutex<Vec<String>>>,
    span: Option<Span>,
}

impl Drop for AtExit {
    fn drop(&mut self) {
        let calls = self.calls.clone();
        let span = self.span.take();
        // each call on its own, so that the verdict names the call that panicked
        let mut panicked: Vec<u8> = vec![];
        for c in &calls {
            let r = catch_unwind(AssertUnwindSafe(|| {
                match c {
                    // 0: the canonical root creation, with a random context
                    0 => { let s = Span::root("late-root", SpanContext::random()); drop(s); }
                    1 => { if let Some(s) = &span { let _g = s.set_local_parent(); let _l = LocalSpan::enter_with_local_parent("late-local"); } }
                    2 => { let _ = SpanContext::current_local_parent(); }
                    3 => { LocalSpan::add_event(Event::new("late-event")); LocalSpan::add_property(|| ("k", "v")); }
                    4 => { if let Some(s) = &span { s.add_property(|| ("k", "v")); s.add_event(Event::new("e")); let _ = SpanContext::from_span(s); let _ = s.elapsed(); s.cancel(); } }
                    5 => { let s = Span::enter_with_local_parent("late-child"); drop(s); }
                    6 => { let c = fastrace::local::LocalCollector::start(); let _ = c.collect(); }
                    7 => { let s = Span::enter_with_parents("late-multi", span.iter()); drop(s); }
                    // 8: root creation with an explicit context (no random number needed)
                    _ => { let s = Span::root("late-root-explicit", SpanContext::new(TraceId(9), SpanId(9))); let _g = s.set_local_parent(); let _l = LocalSpan::enter_with_local_parent("x"); }
                }
            }));
            if r.is_err() {
                panicked.push(*c);
            }
        }
        let r2 = catch_unwind(AssertUnwindSafe(|| drop(span)));
        if r2.is_err() {
            panicked.push(99);
        }
        let r: Result<(), String> = if panicked.is_empty() { Ok(()) } else { Err(format!("panic-in={:?}", panicked)) };
        self.result.lock().unwrap().push(match r { Ok(()) => "ok".to_string(), Err(e) => e });
    }
}

thread_local! {
    static AT_EXIT: std::cell::RefCell<Option<AtExit>> = const { std::cell::RefCell::new(None) };
}

pub fn teardown(seed: u64, n: usize, out: &mut dyn Write) {
    fastrace::verif::set_callback(None);
    let reports: Arc<Mutex<Vec<Vec<SpanRecord>>>> = Arc::new(Mutex::new(Vec::new()));
    fastrace::set_reporter(CapReporter(reports.clone()), Config::default().report_interval(Duration::from_millis(5)));
    let mut r = Rng::new(seed);
    for k in 0..n {
        let first = r.chance(1, 2); // register our destructor before touching fastrace?
        let ncalls = 1 + r.below(5);
        let calls: Vec<u8> = (0..ncalls).map(|_| r.below(9) as u8).collect();
        let with_span = r.chance(2, 3);
        let result: Arc<Mutex<Vec<String>>> = Arc::new(Mutex::new(vec![]));
        let res2 = result.clone();
        let calls2 = calls.clone();
        let h = std::thread::spawn(move || {
            let touch = || {
                let s = Span::root("touch", SpanContext::random());
                let _g = s.set_local_parent();
                let _l = LocalSpan::enter_with_local_parent("touch-local");
            };
            if !first {
                touch();
            }
            let span = if with_span { Some(Span::root("held", SpanContext::random())) } else { None };
            AT_EXIT.with(|a| *a.borrow_mut() = Some(AtExit { calls: calls2, result: res2, span }));
            if first {
                touch();
            }
        });
        let joined = h.join();
        let res = result.lock().unwrap().clone();
        let verdict = if joined.is_err() { "VIOLATION thread-panicked".to_string() } else if res == vec!["ok".to_string()] { "no-panic".to_string() } else { format!("VIOLATION {}", res.join(" ")) };
        let _ = writeln!(out, "X scenario={} registered_first={} calls={:?} span={} => {}", k, first, calls, with_span, verdict);
    }
    fastrace::flush();
    let _ = writeln!(out, "#stat teardown:scenarios {}", n);
}


// ---------------------------------------------------------------- long-lived spans (C18)
/// Spans kept open for milliseconds up to more than two seconds, created, handed over and
/// finished on different threads while many collector cycles pass: the recorded duration must
/// lie in the bracket measured around creation and drop, the begin time in the wall-clock
/// window of the creation, and `elapsed()` in the bracket of its own call.
pub fn longspan(seed: u64, n: usize, out: &mut dyn Write) {
    fastrace::verif::set_callback(None);
    let reports: Arc<Mutex<Vec<Vec<SpanRecord>>>> = Arc::new(Mutex::new(Vec::new()));
    fastrace::set_reporter(CapReporter(reports.clone()), Config::default().report_interval(Duration::from_millis(5)));
    let mut r = Rng::new(seed);
    for k in 0..n {
        let trace = ((seed as u128) << 64) | (0x5000 + k as u128);
        let root = Span::root(format!("ls-root-{k}"), SpanContext::new(TraceId(trace), SpanId(1)));
        let durs_ms: Vec<u64> = vec![3 + r.below(10) as u64, 250 + r.below(100) as u64, 1050 + r.below(200) as u64, 2020 + r.below(100) as u64];
        let mut handles = vec![];
        for (i, d) in durs_ms.iter().copied().enumerate() {
            let wall0 = std::time::SystemTime::now();
            let t_before = Instant::now();
            let sp = Span::enter_with_parent(format!("ls-{k}-{i}"), &root);
            let t_after = Instant::now();
            let wall1 = std::time::SystemTime::now();
            handles.push(std::thread::spawn(move || {
                std::thread::sleep(Duration::from_millis(d));
                let e0 = Instant::now();
                let el = sp.elapsed();
                let e1 = Instant::now();
                let d0 = Instant::now();
                drop(sp);
                let d1 = Instant::now();
                (i, t_before, t_after, wall0, wall1, el, e0, e1, d0, d1)
            }));
        }
        // local spans that last more than a second: one in a local-parent scope, one still open
        // when its local collector is collected (closed at the collection time), the set pushed
        // to the root and converted with to_span_records
        let lroot = Span::enter_with_parent(format!("ls-lroot-{k}"), &root);
        let lms = 1020 + r.below(150) as u64;
        let local_job = std::thread::spawn(move || {
            let t0 = Instant::now();
            let (a0, a1, c0, c1);
            let set;
            {
                let _g = lroot.set_local_parent();
                let l = LocalSpan::enter_with_local_parent(format!("ls-local-{k}"));
                a0 = Instant::now();
                let lc = fastrace::local::LocalCollector::start();
                let open = LocalSpan::enter_with_local_parent(format!("ls-open-{k}"));
                let o0 = Instant::now();
                std::thread::sleep(Duration::from_millis(lms));
                c0 = Instant::now();
                set = lc.collect();
                c1 = Instant::now();
                // the span is still open at collection; its handle belongs to the collected
                // scope and is simply given up (dropping it now is the ill-nested release that
                // debug builds assert against)
                std::mem::forget(open);
                drop(l);
                a1 = Instant::now();
                let _ = o0;
            }
            lroot.push_child_spans(set.clone());
            let conv = set.to_span_records(SpanContext::new(TraceId(5), SpanId(6)));
            drop(lroot);
            (t0, a0, a1, c0, c1, conv)
        });
        let results: Vec<_> = handles.into_iter().filter_map(|h| h.join().ok()).collect();
        let local_res = local_job.join().ok();
        drop(root);
        fastrace::flush();
        let recs: Vec<SpanRecord> = reports.lock().unwrap().drain(..).flatten().collect();
        let mut bad: Vec<String> = vec![];
        if local_res.is_none() {
            bad.push("the thread with the long local spans panicked".to_string());
        }
        if let Some((t0, a0, a1, c0, c1, conv)) = local_res {
            let within = |name: &str, d: u64, lo: u64, hi: u64, bad: &mut Vec<String>| {
                let (lo2, hi2) = (lo - lo / 50 - 3000.min(lo), hi + hi / 50 + 20000);
                if d < lo2 || d > hi2 {
                    bad.push(format!("{name}: duration {d} outside [{lo2}, {hi2}]"));
                }
            };
            match recs.iter().find(|x| x.name == format!("ls-local-{k}")) {
                None => bad.push(format!("ls-local-{k}: not delivered")),
                Some(rec) => within(&rec.name, rec.duration_ns, c0.duration_since(a0).as_nanos() as u64, a1.duration_since(t0).as_nanos() as u64, &mut bad),
            }
            let lo = (lms * 1_000_000).saturating_sub(0);
            let hi = c1.duration_since(a0).as_nanos() as u64;
            match recs.iter().find(|x| x.name == format!("ls-open-{k}")) {
                None => bad.push(format!("ls-open-{k}: the pushed copy was not delivered")),
                Some(rec) => within(&format!("ls-open-{k} (pushed copy)"), rec.duration_ns, lo, hi, &mut bad),
            }
            match conv.iter().find(|x| x.name == format!("ls-open-{k}")) {
                None => bad.push(format!("ls-open-{k}: missing from to_span_records")),
                Some(rec) => within(&format!("ls-open-{k} (to_span_records)"), rec.duration_ns, lo, hi, &mut bad),
            }
        }
        for (i, t_before, t_after, wall0, wall1, el, e0, e1, d0, d1) in results {
            let name = format!("ls-{k}-{i}");
            let Some(rec) = recs.iter().find(|x| x.name == name) else { bad.push(format!("{name}: not delivered")); continue };
            let lo = d0.duration_since(t_after).as_nanos() as u64;
            let hi = d1.duration_since(t_before).as_nanos() as u64;
            let (lo2, hi2) = (lo - lo / 50 - 3000.min(lo), hi + hi / 50 + 20000);
            if rec.duration_ns < lo2 || rec.duration_ns > hi2 {
                bad.push(format!("{name}: duration {} outside [{}, {}]", rec.duration_ns, lo2, hi2));
            }
            let w0 = wall0.duration_since(std::time::UNIX_EPOCH).map(|x| x.as_nanos() as u64).unwrap_or(0);
            let w1 = wall1.duration_since(std::time::UNIX_EPOCH).map(|x| x.as_nanos() as u64).unwrap_or(0);
            if rec.begin_time_unix_ns + 50_000_000 < w0 || rec.begin_time_unix_ns > w1 + 50_000_000 {
                bad.push(format!("{name}: begin {} outside the wall-clock window [{}, {}]", rec.begin_time_unix_ns, w0, w1));
            }
            match el {
                None => bad.push(format!("{name}: elapsed() is None for a recording span")),
                Some(x) => {
                    let elo = e0.duration_since(t_after).as_nanos() as u64;
                    let ehi = e1.duration_since(t_before).as_nanos() as u64;
                    let x = x.as_nanos() as u64;
                    if x + elo / 50 + 3000 < elo || x > ehi + ehi / 50 + 20000 {
                        bad.push(format!("{name}: elapsed {} outside [{}, {}]", x, elo, ehi));
                    }
                }
            }
        }
        let verdict = if bad.is_empty() { "times-consistent".to_string() } else { format!("VIOLATION {}", bad.join("; ")) };
        let _ = writeln!(out, "T scenario={} spans_ms={:?} => {}", k, durs_ms, verdict);
    }
    let _ = writeln!(out, "#stat longspan:scenarios {}", n);
}


// ---------------------------------------------------------------- adapters dropped early (C13 / C14)
/// what the wrapped future / stream owns is released BEFORE the adapter's span finishes when
/// the adapter is dropped before completion: spans held by the wrapped object belong to the
/// trace ("finished before the root"), also when a collector cycle falls right between
struct Holder {
    held: Vec<Span>,
    cycle_on_drop: bool,
}
impl Drop for Holder {
    fn drop(&mut self) {
        // a collector cycle right when the wrapped object starts to be torn down: whatever
        // was finished before this point has reached the collector
        if self.cycle_on_drop {
            fastrace::verif::run_collector_cycle();
        }
        self.held.clear();
    }
}
impl std::future::Future for Holder {
    type Output = ();
    fn poll(self: std::pin::Pin<&mut Self>, _cx: &mut std::task::Context<'_>) -> std::task::Poll<()> {
        std::task::Poll::Pending
    }
}
impl futures_core::Stream for Holder {
    type Item = ();
    fn poll_next(self: std::pin::Pin<&mut Self>, _cx: &mut std::task::Context<'_>) -> std::task::Poll<Option<()>> {
        std::task::Poll::Pending
    }
}
struct NoWake2;
impl std::task::Wake for NoWake2 {
    fn wake(self: Arc<Self>) {}
}

pub fn adrop(seed: u64, n: usize, out: &mut dyn Write) {
    use std::future::Future;
    fastrace::verif::set_callback(None);
    let mut r = Rng::new(seed);
    for k in 0..n {
        let cancelable = r.chance(1, 2);
        let stream = r.chance(1, 2);
        let cycle_on_drop = r.chance(2, 3);
        let polls = r.below(3);
        let other_thread = r.chance(1, 2);
        let nheld = 1 + r.below(2);
        let reports: Arc<Mutex<Vec<Vec<SpanRecord>>>> = Arc::new(Mutex::new(Vec::new()));
        fastrace::verif::install(CapReporter(reports.clone()), Config::default().cancelable(cancelable));
        let trace = ((seed as u128) << 64) | (0x7000 + k as u128);
        let root = Span::root(format!("ad-root-{k}"), SpanContext::new(TraceId(trace), SpanId(1)));
        let mut expected = vec![format!("ad-root-{k}")];
        let held: Vec<Span> = (0..nheld).map(|i| { expected.push(format!("ad-held-{k}-{i}")); Span::enter_with_parent(format!("ad-held-{k}-{i}"), &root) }).collect();
        let holder = Holder { held, cycle_on_drop };
        let waker = std::task::Waker::from(Arc::new(NoWake2));
        if stream {
            let mut ad = Box::pin(fastrace_futures::StreamExt::in_span(holder, root));
            for _ in 0..polls {
                let mut cx = std::task::Context::from_waker(&waker);
                let _ = futures_core::Stream::poll_next(ad.as_mut(), &mut cx);
            }
            if other_thread { let _ = std::thread::spawn(move || drop(ad)).join(); } else { drop(ad); }
        } else {
            let mut ad = Box::pin(fastrace::future::FutureExt::in_span(holder, root));
            for _ in 0..polls {
                let mut cx = std::task::Context::from_waker(&waker);
                let _ = ad.as_mut().poll(&mut cx);
            }
            if other_thread { let _ = std::thread::spawn(move || drop(ad)).join(); } else { drop(ad); }
        }
        fastrace::verif::run_collector_cycle();
        fastrace::verif::run_collector_cycle();
        let batches: Vec<Vec<SpanRecord>> = reports.lock().unwrap().drain(..).collect();
        let mut bad: Vec<String> = vec![];
        for name in &expected {
            let cnt: usize = batches.iter().map(|b| b.iter().filter(|x| x.name == *name).count()).sum();
            if cnt != 1 {
                bad.push(format!("{name} delivered {cnt} times"));
            }
        }
        if cancelable {
            let with: Vec<usize> = batches.iter().enumerate().filter(|(_, b)| b.iter().any(|x| expected.iter().any(|e| x.name == *e))).map(|(i, _)| i).collect();
            if with.len() > 1 {
                bad.push(format!("cancelable trace delivered in {} report calls", with.len()));
            }
        }
        let verdict = if bad.is_empty() { "whole-trace".to_string() } else { format!("VIOLATION {}", bad.join("; ")) };
        let _ = writeln!(out, "D scenario={} cancelable={} stream={} cycle_on_drop={} polls={} other_thread={} held={} => {}",
            k, cancelable, stream, cycle_on_drop, polls, other_thread, nheld, verdict);
    }
    let _ = writeln!(out, "#stat adrop:scenarios {}", n);
}

// ---------------------------------------------------------------- aged collectors and threads
type Job = Box<dyn FnOnce() + Send>;

struct Helper {
    tx: mpsc::Sender<Job>,
    join: Option<std::thread::JoinHandle<()>>,
}
impl Helper {
    fn new(name: &str) -> Helper {
        let (tx, rx) = mpsc::channel::<Job>();
        let join = std::thread::Builder::new().name(name.to_string()).spawn(move || {
            for job in rx {
                job();
            }
        }).unwrap();
        Helper { tx, join: Some(join) }
    }
    /// runs the job on the helper thread and waits until it is done
    fn run(&self, f: impl FnOnce() + Send + 'static) {
        let (dtx, drx) = mpsc::channel::<()>();
        self.tx.send(Box::new(move || { f(); let _ = dtx.send(()); })).unwrap();
        let _ = drx.recv_timeout(Duration::from_secs(20));
    }
    fn stop(mut self) {
        let (tx, _) = mpsc::channel::<Job>();
        drop(std::mem::replace(&mut self.tx, tx));
        if let Some(j) = self.join.take() {
            let _ = j.join();
        }
    }
}

/// State carried across many cycles and traces: two threads that have been tracing for a
/// while (0-40 earlier traces), a collector that has run 0-2100 cycles in which their rings
/// were empty, and only then the trace under test -- root on one thread, a child (with a local
/// span and an event) finished on the other before the root finishes.  It must arrive whole:
/// every span exactly once, in cancelable mode in one report call.
pub fn aged(seed: u64, n: usize, out: &mut dyn Write) {
    fastrace::verif::set_callback(None);
    let mut r = Rng::new(seed);
    for k in 0..n {
        let cancelable = r.chance(1, 2);
        let idle = match r.below(5) { 0 => 0, 1 => 17, 2 => 300, 3 => 1100, _ => 2100 };
        let warm = 1 + match r.below(3) { 0 => 0, 1 => 3, _ => 40 };
        let reports: Arc<Mutex<Vec<Vec<SpanRecord>>>> = Arc::new(Mutex::new(Vec::new()));
        fastrace::verif::install(CapReporter(reports.clone()), Config::default().cancelable(cancelable));
        let a = Helper::new("aged-a");
        let b = Helper::new("aged-b");
        let trace_of = |i: usize| ((seed as u128) << 64) | ((k as u128) << 20) | (i as u128 + 1);
        // one trace: root on A, child handed to B and finished there with a local span, then the
        // root finished on A
        let run_trace = |i: usize, tag: &'static str| {
            let slot: Arc<Mutex<Option<Span>>> = Arc::new(Mutex::new(None));
            let (s1, s2, s3) = (slot.clone(), slot.clone(), slot.clone());
            let t = trace_of(i);
            let child_slot: Arc<Mutex<Option<Span>>> = Arc::new(Mutex::new(None));
            let (c1, c2) = (child_slot.clone(), child_slot.clone());
            a.run(move || {
                let root = Span::root(format!("{tag}-root-{i}"), SpanContext::new(TraceId(t), SpanId(9)));
                *c1.lock().unwrap() = Some(Span::enter_with_parent(format!("{tag}-child-{i}"), &root));
                *s1.lock().unwrap() = Some(root);
            });
            b.run(move || {
                let child = c2.lock().unwrap().take().unwrap();
                {
                    let _g = child.set_local_parent();
                    let _l = LocalSpan::enter_with_local_parent(format!("{tag}-local-{i}"));
                    LocalSpan::add_event(Event::new("aged-event"));
                }
                drop(child);
            });
            a.run(move || drop(s2.lock().unwrap().take()));
            let _ = s3;
        };
        for i in 0..warm {
            run_trace(i, "warm");
            if i % 4 == 3 {
                fastrace::verif::run_collector_cycle();
            }
        }
        fastrace::verif::run_collector_cycle();
        fastrace::verif::run_collector_cycle();
        for _ in 0..idle {
            fastrace::verif::run_collector_cycle();
        }
        let before: Vec<Vec<SpanRecord>> = reports.lock().unwrap().drain(..).collect();
        let mut bad: Vec<String> = vec![];
        for i in 0..warm {
            for nm in [format!("warm-root-{i}"), format!("warm-child-{i}"), format!("warm-local-{i}")] {
                let cnt: usize = before.iter().map(|x| x.iter().filter(|y| y.name == nm).count()).sum();
                if cnt != 1 {
                    bad.push(format!("{nm} delivered {cnt} times"));
                }
            }
        }
        run_trace(warm, "aged");
        fastrace::verif::run_collector_cycle();
        let first: Vec<Vec<SpanRecord>> = reports.lock().unwrap().drain(..).collect();
        fastrace::verif::run_collector_cycle();
        fastrace::verif::run_collector_cycle();
        let later: Vec<Vec<SpanRecord>> = reports.lock().unwrap().drain(..).collect();
        let expected = [format!("aged-root-{warm}"), format!("aged-child-{warm}"), format!("aged-local-{warm}")];
        for nm in &expected {
            let c1: usize = first.iter().map(|x| x.iter().filter(|y| y.name == *nm).count()).sum();
            let c2: usize = later.iter().map(|x| x.iter().filter(|y| y.name == *nm).count()).sum();
            if c1 + c2 != 1 {
                bad.push(format!("{nm} delivered {} times", c1 + c2));
            } else if c1 != 1 {
                bad.push(format!("{nm} not delivered by the first cycle after it was finished"));
            }
        }
        let ev: usize = first.iter().chain(later.iter()).map(|x| x.iter().filter(|y| y.name == expected[2]).map(|y| y.events.len()).sum::<usize>()).sum();
        if ev != 1 && bad.is_empty() {
            bad.push(format!("the local span carries {ev} events"));
        }
        if cancelable {
            let calls = first.iter().chain(later.iter()).filter(|x| x.iter().any(|y| expected.iter().any(|e| y.name == *e))).count();
            if calls > 1 {
                bad.push(format!("cancelable trace delivered in {calls} report calls"));
            }
        }
        // a very large cycle: thousands of records become reportable at once (one scope may hold
        // up to 10240 local spans); every one must arrive, once
        let bulk = match r.below(4) { 0 => 0usize, 1 => 4097, 2 => 5000 + r.below(3000), _ => 8192 + r.below(1900) };
        if bulk > 0 {
            let bt = trace_of(warm + 1);
            a.run(move || {
                let root = Span::root("bulk-root", SpanContext::new(TraceId(bt), SpanId(9)));
                {
                    let _g = root.set_local_parent();
                    for _ in 0..bulk {
                        let _l = LocalSpan::enter_with_local_parent("bulk-local");
                    }
                }
                drop(root);
            });
            fastrace::verif::run_collector_cycle();
            fastrace::verif::run_collector_cycle();
            let got: Vec<Vec<SpanRecord>> = reports.lock().unwrap().drain(..).collect();
            let nl: usize = got.iter().map(|x| x.iter().filter(|y| y.trace_id.0 == bt && y.name == "bulk-local").count()).sum();
            let nr: usize = got.iter().map(|x| x.iter().filter(|y| y.trace_id.0 == bt && y.name == "bulk-root").count()).sum();
            if nl != bulk || nr != 1 {
                bad.push(format!("a scope of {bulk} local spans finished before one cycle: {nl} local records and {nr} root records delivered"));
            }
        }
        let st = fastrace::verif::collector_stats();
        if !st.active.is_empty() && bad.is_empty() {
            bad.push(format!("{} traces retained after everything finished", st.active.len()));
        }
        a.stop();
        b.stop();
        let verdict = if bad.is_empty() { "whole-trace".to_string() } else { format!("VIOLATION {}", bad.join("; ")) };
        let _ = writeln!(out, "G scenario={} cancelable={} idle_cycles={} earlier_traces={} bulk={} => {}", k, cancelable, idle, warm, bulk, verdict);
    }
    let _ = writeln!(out, "#stat aged:scenarios {}", n);
}

/// Delivery that only flush() can bring about: the reporter is installed with a report interval
/// of an hour, so the background thread never helps.  Two flush() calls at once: the first is
/// still inside a slow report() when another thread, which has just finished spans, calls
/// flush() too; when THAT call returns its spans must have been delivered.
pub fn cflush(seed: u64, n: usize, out: &mut dyn Write) {
    fastrace::verif::set_callback(None);
    let reports: Arc<Mutex<Vec<Vec<SpanRecord>>>> = Arc::new(Mutex::new(Vec::new()));
    let stall_ms = Arc::new(AtomicU64::new(0));
    let in_report = Arc::new(AtomicBool::new(false));
    fastrace::set_reporter(LiveReporter { reports: reports.clone(), stall_ms: stall_ms.clone(), in_report: in_report.clone() },
        Config::default().report_interval(Duration::from_secs(3600)));
    let mut r = Rng::new(seed);
    let mut delivered: HashMap<(u128, String), usize> = HashMap::new();
    let drain = |delivered: &mut HashMap<(u128, String), usize>| {
        let mut g = reports.lock().unwrap();
        for b in g.drain(..) {
            for rec in b {
                *delivered.entry(key(&rec)).or_insert(0) += 1;
            }
        }
    };
    for k in 0..n {
        let trace = ((seed as u128) << 64) | (k as u128 + 1);
        {
            // two flush() calls at once: the first is still inside a slow report() when another
            // thread, which has just finished spans, calls flush() too.  When THAT call returns
            // its spans must have been delivered (flush waits for a cycle that drains them).
            fastrace::flush();
            drain(&mut delivered);
            let ms = if r.chance(1, 2) { 400 } else { 150 };
            let root = Span::root(format!("cf-root-{k}"), SpanContext::new(TraceId(trace), SpanId(7)));
            let gate = Span::enter_with_parent(format!("cf-gate-{k}"), &root);
            let late = Span::enter_with_parent(format!("cf-late-{k}"), &root);
            stall_ms.store(ms, Ordering::SeqCst);
            let a = std::thread::spawn(move || {
                drop(gate);
                fastrace::flush();
            });
            let t0 = Instant::now();
            while !in_report.load(Ordering::SeqCst) && t0.elapsed() < Duration::from_millis(10000) {
                std::thread::sleep(Duration::from_millis(1));
            }
            let stalled = in_report.load(Ordering::SeqCst);
            let b = std::thread::spawn(move || {
                {
                    let _g = late.set_local_parent();
                    let _l = LocalSpan::enter_with_local_parent(format!("cf-local-{k}"));
                }
                drop(late);
                fastrace::flush();
            });
            let _ = b.join();
            // B's flush has returned
            drain(&mut delivered);
            let mut bad: Vec<String> = vec![];
            for nm in ["cf-late", "cf-local"] {
                let c = delivered.get(&(trace, format!("{nm}-{k}"))).copied().unwrap_or(0);
                if c != 1 {
                    bad.push(format!("{nm}-{k} delivered {c} times when the flush() of its thread returned"));
                }
            }
            let _ = a.join();
            drop(root);
            fastrace::flush();
            drain(&mut delivered);
            for nm in ["cf-root", "cf-gate", "cf-late", "cf-local"] {
                let c = delivered.get(&(trace, format!("{nm}-{k}"))).copied().unwrap_or(0);
                if c != 1 && bad.is_empty() {
                    bad.push(format!("{nm}-{k} delivered {c} times"));
                }
            }
            let verdict = if bad.is_empty() { "delivered-once".to_string() } else { format!("VIOLATION {}", bad.join("; ")) };
            let _ = writeln!(out, "L scenario={} concurrent-flush stall_ms={} stalled={} => {}", k, ms, stalled, verdict);
            stall_ms.store(0, Ordering::SeqCst);
        }
    }
    // many collector cycles at once: two threads call flush() in a loop while a third starts and
    // finishes small traces; cycles are serialised by the collector's lock, so in the end every
    // span has been delivered exactly once and nothing is retained
    {
        let stop = Arc::new(AtomicBool::new(false));
        let flushed = Arc::new(AtomicU64::new(0));
        let flushers: Vec<_> = (0..3).map(|_| {
            let (st, fl) = (stop.clone(), flushed.clone());
            std::thread::spawn(move || {
                let mut c = 0u64;
                while !st.load(Ordering::SeqCst) {
                    fastrace::flush();
                    fl.fetch_add(1, Ordering::SeqCst);
                    c += 1;
                }
                c
            })
        }).collect();
        let want = 150 + 50 * n as u64;
        let base = ((seed as u128) << 64) | 0x77_0000;
        let t0 = Instant::now();
        let mut ntr = 0usize;
        let mut open_roots: std::collections::VecDeque<Span> = Default::default();
        // traces keep coming until enough cycles have run (at most 4 s)
        while (flushed.load(Ordering::SeqCst) < want && t0.elapsed() < Duration::from_secs(4) && ntr < 200_000) || ntr < 50 {
            // a root stays open for a few iterations: its start and its commit are drained by
            // different cycles
            let root = Span::root("hm-root", SpanContext::new(TraceId(base + ntr as u128), SpanId(1)));
            let child = Span::enter_with_parent("hm-child", &root);
            drop(child);
            open_roots.push_back(root);
            if open_roots.len() > 3 {
                drop(open_roots.pop_front());
            }
            ntr += 1;
            std::thread::sleep(Duration::from_micros(40));
        }
        open_roots.clear();
        stop.store(true, Ordering::SeqCst);
        let cycles: u64 = flushers.into_iter().filter_map(|h| h.join().ok()).sum();
        fastrace::flush();
        fastrace::flush();
        let mut bad: Vec<String> = vec![];
        let mut cnt: HashMap<(u128, String), usize> = HashMap::new();
        for b in reports.lock().unwrap().drain(..) {
            for rec in b {
                *cnt.entry(key(&rec)).or_insert(0) += 1;
            }
        }
        let mut wrong = 0;
        for i in 0..ntr {
            for nm in ["hm-root", "hm-child"] {
                if cnt.get(&(base + i as u128, nm.to_string())).copied().unwrap_or(0) != 1 {
                    wrong += 1;
                }
            }
        }
        if wrong > 0 {
            bad.push(format!("{wrong} of {} spans not delivered exactly once", 2 * ntr));
        }
        let st = fastrace::verif::collector_stats();
        if !st.active.is_empty() {
            bad.push(format!("{} traces retained after everything finished and was flushed", st.active.len()));
        }
        let verdict = if bad.is_empty() { "delivered-once".to_string() } else { format!("VIOLATION {}", bad.join("; ")) };
        let _ = writeln!(out, "L hammer traces={} concurrent_flush_calls={} => {}", ntr, cycles, verdict);
    }
    let _ = writeln!(out, "#stat cflush:scenarios {}", n);
}

// ---------------------------------------------------------------- user code that panics inside a call
/// a span name whose conversion panics
struct PanickyName;
impl From<PanickyName> for std::borrow::Cow<'static, str> {
    fn from(_: PanickyName) -> Self {
        std::panic::resume_unwind(Box::new("name conversion panics"))
    }
}

fn ctx_key(c: Option<SpanContext>) -> Option<(u128, u64, bool)> {
    c.map(|c| (c.trace_id.0, c.span_id.0, c.sampled))
}

fn quiet_unwind<R>(f: impl FnOnce() -> R) -> Option<R> {
    catch_unwind(AssertUnwindSafe(f)).ok()
}

/// User code that panics INSIDE a tracing call -- a property closure, the conversion of a span
/// name -- with the panic caught by the caller.  Whatever was handed to the call by value is
/// dropped by the unwinding, exactly as if the caller had dropped it there: the trace must
/// still arrive whole (every span once, cancelable in one report call), later spans must hang
/// under the right parents, and the thread's local context must be what it was.
pub fn unwind(seed: u64, n: usize, out: &mut dyn Write) {
    fastrace::verif::set_callback(None);
    let mut r = Rng::new(seed);
    for k in 0..n {
        let cancelable = r.chance(1, 2);
        let what = r.below(8);
        let reports: Arc<Mutex<Vec<Vec<SpanRecord>>>> = Arc::new(Mutex::new(Vec::new()));
        fastrace::verif::install(CapReporter(reports.clone()), Config::default().cancelable(cancelable));
        let trace = ((seed as u128) << 64) | (0x9000 + k as u128);
        let mut bad: Vec<String> = vec![];
        let mut expected: Vec<String> = vec![];
        let mut local_parent_of: Vec<(String, String)> = vec![];   // (span, expected parent span)
        // the scenario itself runs under catch_unwind: a tracing call that panics AFTER the caught
        // panic of the user code (a corrupted span stack tripping an assertion) is a verdict too
        let scenario = catch_unwind(AssertUnwindSafe(|| {
        let boom = || -> Vec<(String, String)> { std::panic::resume_unwind(Box::new("property closure panics")) };
        let root = Span::root(format!("uw-root-{k}"), SpanContext::new(TraceId(trace), SpanId(1)));
        expected.push(format!("uw-root-{k}"));
        let root_ctx = SpanContext::from_span(&root);
        match what {
            0 => {
                // Span::with_properties on a child: the child is dropped by the unwinding (finished)
                let child = Span::enter_with_parent(format!("uw-child-{k}"), &root);
                expected.push(format!("uw-child-{k}"));
                let _ = quiet_unwind(move || child.with_properties(boom));
            }
            1 => {
                // the same on the root itself: the trace ends there
                let sib = Span::enter_with_parent(format!("uw-sib-{k}"), &root);
                expected.push(format!("uw-sib-{k}"));
                drop(sib);
            }
            2 | 3 => {
                // LocalSpan::with_properties / with_property inside a scope, then more local spans
                let _g = root.set_local_parent();
                let before = ctx_key(SpanContext::current_local_parent());
                let outer = LocalSpan::enter_with_local_parent(format!("uw-outer-{k}"));
                expected.push(format!("uw-outer-{k}"));
                let inner = LocalSpan::enter_with_local_parent(format!("uw-inner-{k}"));
                expected.push(format!("uw-inner-{k}"));
                local_parent_of.push((format!("uw-inner-{k}"), format!("uw-outer-{k}")));
                if what == 2 {
                    let _ = quiet_unwind(move || inner.with_properties(boom));
                } else {
                    let _ = quiet_unwind(move || inner.with_property(|| -> (String, String) { std::panic::resume_unwind(Box::new("p")) }));
                }
                {
                    let _after = LocalSpan::enter_with_local_parent(format!("uw-after-{k}"));
                    expected.push(format!("uw-after-{k}"));
                    local_parent_of.push((format!("uw-after-{k}"), format!("uw-outer-{k}")));
                }
                drop(outer);
                {
                    let _last = LocalSpan::enter_with_local_parent(format!("uw-last-{k}"));
                    expected.push(format!("uw-last-{k}"));
                    local_parent_of.push((format!("uw-last-{k}"), format!("uw-root-{k}")));
                }
                if ctx_key(SpanContext::current_local_parent()) != before {
                    bad.push("the local context is not restored after the spans of the scope were closed".to_string());
                }
            }
            4 => {
                // the name of a local span panics while it is converted
                let _g = root.set_local_parent();
                let outer = LocalSpan::enter_with_local_parent(format!("uw-outer-{k}"));
                expected.push(format!("uw-outer-{k}"));
                let before = ctx_key(SpanContext::current_local_parent());
                let _ = quiet_unwind(|| LocalSpan::enter_with_local_parent(PanickyName));
                if ctx_key(SpanContext::current_local_parent()) != before {
                    bad.push("a local span whose name conversion panicked changed the local context".to_string());
                }
                {
                    let _after = LocalSpan::enter_with_local_parent(format!("uw-after-{k}"));
                    expected.push(format!("uw-after-{k}"));
                    local_parent_of.push((format!("uw-after-{k}"), format!("uw-outer-{k}")));
                }
                drop(outer);
            }
            5 => {
                // the name of a span / an event panics
                let _g = root.set_local_parent();
                let before = ctx_key(SpanContext::current_local_parent());
                let _ = quiet_unwind(|| Span::enter_with_local_parent(PanickyName));
                let _ = quiet_unwind(|| Span::enter_with_parent(PanickyName, &root));
                let _ = quiet_unwind(|| LocalSpan::add_event(Event::new(PanickyName)));
                if ctx_key(SpanContext::current_local_parent()) != before {
                    bad.push("a span whose name conversion panicked changed the local context".to_string());
                }
                let c = Span::enter_with_local_parent(format!("uw-child-{k}"));
                expected.push(format!("uw-child-{k}"));
                drop(c);
            }
            6 => {
                // closures of the attach-style entry points
                let _g = root.set_local_parent();
                let l = LocalSpan::enter_with_local_parent(format!("uw-outer-{k}"));
                expected.push(format!("uw-outer-{k}"));
                let _ = quiet_unwind(|| LocalSpan::add_properties(boom));
                let _ = quiet_unwind(|| root.add_properties(boom));
                let _ = quiet_unwind(|| LocalSpan::add_event(Event::new("uw-ev").with_properties(boom)));
                {
                    let _after = LocalSpan::enter_with_local_parent(format!("uw-after-{k}"));
                    expected.push(format!("uw-after-{k}"));
                    local_parent_of.push((format!("uw-after-{k}"), format!("uw-outer-{k}")));
                }
                drop(l);
            }
            _ => {
                // a panic that unwinds through a guard and local spans, caught outside
                let before = ctx_key(SpanContext::current_local_parent());
                let rref = &root;
                let _ = quiet_unwind(|| {
                    let _g = rref.set_local_parent();
                    let _l = LocalSpan::enter_with_local_parent(format!("uw-outer-{k}"));
                    let _m = LocalSpan::enter_with_local_parent(format!("uw-inner-{k}"));
                    std::panic::resume_unwind(Box::new("body panics"));
                });
                expected.push(format!("uw-outer-{k}"));
                expected.push(format!("uw-inner-{k}"));
                local_parent_of.push((format!("uw-inner-{k}"), format!("uw-outer-{k}")));
                if ctx_key(SpanContext::current_local_parent()) != before {
                    bad.push("the local context is not restored after a panic unwound through the scope".to_string());
                }
            }
        }
        if what == 1 {
            let _ = quiet_unwind(move || root.with_properties(boom));
        } else {
            drop(root);
        }
        let _ = root_ctx;
        }));
        if scenario.is_err() {
            bad.push("a tracing call made after the caught panic panicked itself".to_string());
        }
        fastrace::verif::run_collector_cycle();
        fastrace::verif::run_collector_cycle();
        let batches: Vec<Vec<SpanRecord>> = reports.lock().unwrap().drain(..).collect();
        let all: Vec<&SpanRecord> = batches.iter().flat_map(|b| b.iter()).collect();
        for name in &expected {
            let cnt = all.iter().filter(|x| x.name == *name).count();
            if cnt != 1 {
                bad.push(format!("{name} delivered {cnt} times"));
            }
        }
        let extra: Vec<String> = all.iter().filter(|x| x.trace_id.0 == trace && !expected.iter().any(|e| x.name == *e)).map(|x| x.name.to_string()).collect();
        if !extra.is_empty() {
            bad.push(format!("unexpected records {:?}", extra));
        }
        for (child, parent) in &local_parent_of {
            let c = all.iter().find(|x| x.name == *child);
            let p = all.iter().find(|x| x.name == *parent);
            if let (Some(c), Some(p)) = (c, p) {
                if c.parent_id != p.span_id {
                    bad.push(format!("{child} hangs under {:x}, not under {parent}", c.parent_id.0));
                }
            }
        }
        if all.iter().any(|x| x.trace_id.0 == trace && (!x.properties.is_empty())) {
            bad.push("a property of a closure that panicked was recorded".to_string());
        }
        if cancelable {
            let calls = batches.iter().filter(|b| b.iter().any(|x| x.trace_id.0 == trace)).count();
            if calls > 1 {
                bad.push(format!("cancelable trace delivered in {calls} report calls"));
            }
        }
        let st = fastrace::verif::collector_stats();
        if !st.active.is_empty() && bad.is_empty() {
            bad.push(format!("{} traces retained after everything finished", st.active.len()));
        }
        let verdict = if bad.is_empty() { "as-if-dropped".to_string() } else { format!("VIOLATION {}", bad.join("; ")) };
        let _ = writeln!(out, "W scenario={} cancelable={} what={} => {}", k, cancelable, what, verdict);
    }
    let _ = writeln!(out, "#stat unwind:scenarios {}", n);
}
