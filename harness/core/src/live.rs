//! Non-orchestrated streams (no yield-point callback):
//!  * `live`: the real set_reporter with its background thread and the real flush():
//!    multi-threaded programs with hand-off of spans between threads and threads that exit
//!    right after finishing; every finished span of a sampled trace must be delivered
//!    exactly once, either within a generous multiple of the report interval without any
//!    further call, or by the time flush() returns (C01, the part the orchestrated streams
//!    cannot exercise);
//!  * `teardown`: tracing calls issued from a thread-local destructor, registered before or
//!    after fastrace's own thread-locals, must not panic (C07).
use std::collections::HashMap;
use std::io::Write;
use std::panic::{catch_unwind, AssertUnwindSafe};
use std::sync::mpsc;
use std::sync::{Arc, Mutex};
use std::time::{Duration, Instant};

use fastrace::collector::{Config, SpanRecord};
use fastrace::prelude::*;

use crate::orch::CapReporter;
use crate::rng::Rng;
use std::sync::atomic::{AtomicBool, AtomicU64, Ordering};

/// captures the batches; when `stall_ms` is non-zero the next non-empty report call blocks for
/// that long (once), with `in_report` raised meanwhile: a slow reporter
struct LiveReporter {
    reports: Arc<Mutex<Vec<Vec<SpanRecord>>>>,
    stall_ms: Arc<AtomicU64>,
    in_report: Arc<AtomicBool>,
}
impl fastrace::collector::Reporter for LiveReporter {
    fn report(&mut self, spans: Vec<SpanRecord>) {
        let nonempty = !spans.is_empty();
        self.reports.lock().unwrap().push(spans);
        if nonempty {
            let ms = self.stall_ms.swap(0, Ordering::SeqCst);
            if ms > 0 {
                self.in_report.store(true, Ordering::SeqCst);
                std::thread::sleep(Duration::from_millis(ms));
                self.in_report.store(false, Ordering::SeqCst);
            }
        }
    }
}

fn key(r: &SpanRecord) -> (u128, String) {
    (r.trace_id.0, r.name.to_string())
}

pub fn live(seed: u64, n: usize, out: &mut dyn Write) {
    fastrace::verif::set_callback(None);
    let reports: Arc<Mutex<Vec<Vec<SpanRecord>>>> = Arc::new(Mutex::new(Vec::new()));
    let interval = Duration::from_millis(20);
    let stall_ms = Arc::new(AtomicU64::new(0));
    let in_report = Arc::new(AtomicBool::new(false));
    fastrace::set_reporter(LiveReporter { reports: reports.clone(), stall_ms: stall_ms.clone(), in_report: in_report.clone() },
        Config::default().report_interval(interval));
    let mut r = Rng::new(seed);
    let mut delivered: HashMap<(u128, String), usize> = HashMap::new();
    let drain = |delivered: &mut HashMap<(u128, String), usize>| {
        let mut g = reports.lock().unwrap();
        for b in g.drain(..) {
            for rec in b {
                *delivered.entry(key(&rec)).or_insert(0) += 1;
            }
        }
    };
    for k in 0..n {
        let trace = ((seed as u128) << 64) | (k as u128 + 1);
        if k % 6 == 3 {
            // a slow reporter: one report call blocks while a short-lived thread finishes more
            // spans (after that cycle's drain); a flush() called afterwards must still return
            // only once those have been delivered, however long the reporter takes
            let ms = if r.chance(1, 2) { 700 } else { 150 };
            let root = Span::root(format!("slow-root-{k}"), SpanContext::new(TraceId(trace), SpanId(7)));
            let first = Span::enter_with_parent(format!("slow-first-{k}"), &root);
            let late = Span::enter_with_parent(format!("slow-late-{k}"), &root);
            stall_ms.store(ms, Ordering::SeqCst);
            drop(first);
            let t0 = Instant::now();
            while !in_report.load(Ordering::SeqCst) && t0.elapsed() < Duration::from_millis(3000) {
                std::thread::sleep(Duration::from_millis(1));
            }
            let stalled = in_report.load(Ordering::SeqCst);
            let h = std::thread::spawn(move || {
                {
                    let _g = late.set_local_parent();
                    let _l = LocalSpan::enter_with_local_parent(format!("slow-local-{k}"));
                }
                drop(late);
            });
            let _ = h.join();
            drop(root);
            let t1 = Instant::now();
            fastrace::flush();
            let flush_ms = t1.elapsed().as_millis();
            drain(&mut delivered);
            let expected: Vec<(u128, String)> = ["slow-root", "slow-first", "slow-late", "slow-local"].iter().map(|n| (trace, format!("{n}-{k}"))).collect();
            let missing: Vec<&String> = expected.iter().filter(|e| delivered.get(*e).copied().unwrap_or(0) == 0).map(|e| &e.1).collect();
            let dup: Vec<&String> = expected.iter().filter(|e| delivered.get(*e).copied().unwrap_or(0) > 1).map(|e| &e.1).collect();
            let verdict = if missing.is_empty() && dup.is_empty() { "delivered-once".to_string() } else { format!("VIOLATION missing={:?} duplicated={:?}", missing, dup) };
            let _ = writeln!(out, "L scenario={} slow-reporter stall_ms={} stalled={} flush_ms={} => {}", k, ms, stalled, flush_ms, verdict);
            stall_ms.store(0, Ordering::SeqCst);
            continue;
        }
        let use_flush = r.chance(1, 2);
        let nthreads = 1 + r.below(3);
        let mut expected: Vec<(u128, String)> = vec![];
        let root = Span::root(format!("root-{k}"), SpanContext::new(TraceId(trace), SpanId(7)));
        expected.push((trace, format!("root-{k}")));
        let (tx, rx) = mpsc::channel::<Span>();
        let mut handles = vec![];
        for t in 0..nthreads {
            let child = Span::enter_with_parent(format!("child-{k}-{t}"), &root);
            expected.push((trace, format!("child-{k}-{t}")));
            let nlocal = r.below(4);
            for j in 0..nlocal {
                expected.push((trace, format!("local-{k}-{t}-{j}")));
            }
            let handoff = r.chance(1, 2);
            let tx2 = tx.clone();
            handles.push(std::thread::spawn(move || {
                {
                    let _g = child.set_local_parent();
                    for j in 0..nlocal {
                        let _l = LocalSpan::enter_with_local_parent(format!("local-{k}-{t}-{j}"));
                    }
                }
                if handoff {
                    // finished by another thread; this one exits at once
                    let _ = tx2.send(child);
                } else {
                    drop(child);
                }
                // the thread exits right after its last push
            }));
        }
        drop(tx);
        for h in handles {
            let _ = h.join();
        }
        for s in rx.iter() {
            drop(s);
        }
        if r.chance(1, 2) {
            drop(root);
        } else {
            let h = std::thread::spawn(move || drop(root));
            let _ = h.join();
        }
        let t0 = Instant::now();
        let mut waited_ms = 0u128;
        if use_flush {
            fastrace::flush();
            drain(&mut delivered);
        } else {
            // no further call: the background thread must deliver on its own
            let deadline = Duration::from_millis(3000);
            loop {
                drain(&mut delivered);
                if expected.iter().all(|e| delivered.get(e).copied().unwrap_or(0) >= 1) || t0.elapsed() > deadline {
                    break;
                }
                std::thread::sleep(Duration::from_millis(2));
            }
            waited_ms = t0.elapsed().as_millis();
        }
        let missing: Vec<&(u128, String)> = expected.iter().filter(|e| delivered.get(*e).copied().unwrap_or(0) == 0).collect();
        let dup: Vec<&(u128, String)> = expected.iter().filter(|e| delivered.get(*e).copied().unwrap_or(0) > 1).collect();
        let verdict = if missing.is_empty() && dup.is_empty() {
            "delivered-once".to_string()
        } else {
            format!("VIOLATION missing={:?} duplicated={:?}", missing.iter().map(|m| &m.1).collect::<Vec<_>>(), dup.iter().map(|m| &m.1).collect::<Vec<_>>())
        };
        let _ = writeln!(out, "L scenario={} threads={} spans={} mode={} waited_ms={} => {}", k, nthreads, expected.len(),
            if use_flush { "flush" } else { "interval" }, waited_ms, verdict);
    }
    // nothing may arrive twice later on either
    std::thread::sleep(Duration::from_millis(60));
    drain(&mut delivered);
    let late_dups = delivered.values().filter(|c| **c > 1).count();
    let _ = writeln!(out, "L final duplicates={} => {}", late_dups, if late_dups == 0 { "delivered-once" } else { "VIOLATION duplicates after the fact" });
    let _ = writeln!(out, "#stat live:scenarios {}", n);
}

// ---------------------------------------------------------------- thread-local teardown
struct AtExit {
    calls: Vec<u8>,
    result: Arc<Mutex<Vec<String>>>,
    span: Option<Span>,
}

impl Drop for AtExit {
    fn drop(&mut self) {
        let calls = self.calls.clone();
        let span = self.span.take();
        // each call on its own, so that the verdict names the call that panicked
        let mut panicked: Vec<u8> = vec![];
        for c in &calls {
            let r = catch_unwind(AssertUnwindSafe(|| {
                match c {
                    // 0: the canonical root creation, with a random context
                    0 => { let s = Span::root("late-root", SpanContext::random()); drop(s); }
                    1 => { if let Some(s) = &span { let _g = s.set_local_parent(); let _l = LocalSpan::enter_with_local_parent("late-local"); } }
                    2 => { let _ = SpanContext::current_local_parent(); }
                    3 => { LocalSpan::add_event(Event::new("late-event")); LocalSpan::add_property(|| ("k", "v")); }
                    4 => { if let Some(s) = &span { s.add_property(|| ("k", "v")); s.add_event(Event::new("e")); let _ = SpanContext::from_span(s); let _ = s.elapsed(); s.cancel(); } }
                    5 => { let s = Span::enter_with_local_parent("late-child"); drop(s); }
                    6 => { let c = fastrace::local::LocalCollector::start(); let _ = c.collect(); }
                    7 => { let s = Span::enter_with_parents("late-multi", span.iter()); drop(s); }
                    // 8: root creation with an explicit context (no random number needed)
                    _ => { let s = Span::root("late-root-explicit", SpanContext::new(TraceId(9), SpanId(9))); let _g = s.set_local_parent(); let _l = LocalSpan::enter_with_local_parent("x"); }
                }
            }));
            if r.is_err() {
                panicked.push(*c);
            }
        }
        let r2 = catch_unwind(AssertUnwindSafe(|| drop(span)));
        if r2.is_err() {
            panicked.push(99);
        }
        let r: Result<(), String> = if panicked.is_empty() { Ok(()) } else { Err(format!("panic-in={:?}", panicked)) };
        self.result.lock().unwrap().push(match r { Ok(()) => "ok".to_string(), Err(e) => e });
    }
}

thread_local! {
    static AT_EXIT: std::cell::RefCell<Option<AtExit>> = const { std::cell::RefCell::new(None) };
}

pub fn teardown(seed: u64, n: usize, out: &mut dyn Write) {
    fastrace::verif::set_callback(None);
    let reports: Arc<Mutex<Vec<Vec<SpanRecord>>>> = Arc::new(Mutex::new(Vec::new()));
    fastrace::set_reporter(CapReporter(reports.clone()), Config::default().report_interval(Duration::from_millis(5)));
    let mut r = Rng::new(seed);
    for k in 0..n {
        let first = r.chance(1, 2); // register our destructor before touching fastrace?
        let ncalls = 1 + r.below(5);
        let calls: Vec<u8> = (0..ncalls).map(|_| r.below(9) as u8).collect();
        let with_span = r.chance(2, 3);
        let result: Arc<Mutex<Vec<String>>> = Arc::new(Mutex::new(vec![]));
        let res2 = result.clone();
        let calls2 = calls.clone();
        let h = std::thread::spawn(move || {
            let touch = || {
                let s = Span::root("touch", SpanContext::random());
                let _g = s.set_local_parent();
                let _l = LocalSpan::enter_with_local_parent("touch-local");
            };
            if !first {
                touch();
            }
            let span = if with_span { Some(Span::root("held", SpanContext::random())) } else { None };
            AT_EXIT.with(|a| *a.borrow_mut() = Some(AtExit { calls: calls2, result: res2, span }));
            if first {
                touch();
            }
        });
        let joined = h.join();
        let res = result.lock().unwrap().clone();
        let verdict = if joined.is_err() { "VIOLATION thread-panicked".to_string() } else if res == vec!["ok".to_string()] { "no-panic".to_string() } else { format!("VIOLATION {}", res.join(" ")) };
        let _ = writeln!(out, "X scenario={} registered_first={} calls={:?} span={} => {}", k, first, calls, with_span, verdict);
    }
    fastrace::flush();
    let _ = writeln!(out, "#stat teardown:scenarios {}", n);
}
