//! C12 correspondence stream: runs the id/traceparent codecs of the real crate on
//! generated inputs and prints one case per line (input => what the code did).
use std::collections::BTreeMap;
use std::io::Write;
use std::panic::{catch_unwind, AssertUnwindSafe};

use fastrace::prelude::*;

use crate::rng::{hex_bytes, unhex, Rng};

fn interesting_u128(r: &mut Rng) -> u128 {
    match r.below(10) {
        0 => 0,
        1 => u128::MAX,
        2 => 1u128 << 127,
        3 => (1u128 << 64) - 1,
        4 => 1u128 << 64,
        5 => r.below(300) as u128,
        6 => r.u128() >> (r.below(128) as u32),
        _ => r.u128(),
    }
}
fn interesting_u64(r: &mut Rng) -> u64 {
    match r.below(8) {
        0 => 0,
        1 => u64::MAX,
        2 => 1u64 << 63,
        3 => r.below(300) as u64,
        4 => r.next() >> (r.below(64) as u32),
        _ => r.next(),
    }
}

const ALPHABET: &[&str] = &[
    "-", "-", "+", "0", "1", "9", "a", "f", "A", "F", "g", "G", "x", " ", "_", "é", "１", "\u{0}",
    "\u{7f}", "Ａ", "00", "ff", "0x", "\n", "🙂",
];

fn mutate(r: &mut Rng, s: &str) -> String {
    let chars: Vec<char> = s.chars().collect();
    let mut out: Vec<String> = chars.iter().map(|c| c.to_string()).collect();
    let n_edits = 1 + r.below(2);
    for _ in 0..n_edits {
        let pos = r.below(out.len() + 1);
        match r.below(4) {
            0 => out.insert(pos.min(out.len()), r.pick(ALPHABET).to_string()),
            1 => { if !out.is_empty() { out.remove(pos.min(out.len() - 1)); } }
            2 => { if !out.is_empty() { let p = pos.min(out.len() - 1); out[p] = r.pick(ALPHABET).to_string(); } }
            _ => { if !out.is_empty() { let p = pos.min(out.len() - 1); out[p] = out[p].to_uppercase(); } }
        }
    }
    out.concat()
}

fn hexfield(r: &mut Rng, nominal: usize) -> String {
    // a field of hex digits of various lengths and cases, sometimes overflowing
    let len = match r.below(8) {
        0 => 0,
        1 => 1,
        2 => nominal - 1,
        3 => nominal + 1,
        4 => nominal + 1 + r.below(40),
        5 => r.below(nominal + 1),
        _ => nominal,
    };
    let lead_zero = r.chance(1, 2);
    let mut s = String::new();
    for i in 0..len {
        let d = if lead_zero && i + nominal < len + 0 && len > nominal { 0 } else { r.below(16) };
        let c = std::char::from_digit(d as u32, 16).unwrap();
        s.push(if r.chance(1, 6) { c.to_ascii_uppercase() } else { c });
    }
    if r.chance(1, 12) { s.insert(0, '+'); }
    s
}

fn structured(r: &mut Rng) -> String {
    let versions = ["00", "00", "00", "00", "01", "0", "000", "ff", "", "+0", "0０"];
    let nf = match r.below(10) { 0 => 3, 1 => 5, 2 => 2, 3 => 1, _ => 4 };
    let mut fields = vec![r.pick(&versions).to_string()];
    let widths = [32usize, 16, 2, 2, 2];
    for i in 1..nf { fields.push(hexfield(r, widths[(i - 1).min(4)])); }
    fields.join("-")
}

fn random_string(r: &mut Rng) -> String {
    let n = r.below(70);
    (0..n).map(|_| r.pick(ALPHABET).to_string()).collect()
}

fn ctx_line(c: &Option<SpanContext>) -> String {
    match c {
        None => "none".to_string(),
        Some(c) => format!("some {:x} {:x} {}", c.trace_id.0, c.span_id.0, c.sampled as u8),
    }
}

fn run_dec(s: &str) -> String {
    match catch_unwind(AssertUnwindSafe(|| SpanContext::decode_w3c_traceparent(s))) {
        Ok(c) => ctx_line(&c),
        Err(_) => "panic".to_string(),
    }
}

fn opt_hex<T: std::fmt::LowerHex>(x: Option<T>) -> String {
    match x { None => "none".into(), Some(v) => format!("some {:x}", v) }
}

pub fn run_case(kind: &str, args: &[&str]) -> String {
    // returns the code's result part of the line
    match kind {
        "rt" => {
            let t = u128::from_str_radix(args[0], 16).unwrap();
            let s = u64::from_str_radix(args[1], 16).unwrap();
            let b = args[2] == "1";
            let r = catch_unwind(AssertUnwindSafe(|| {
                let c = SpanContext::new(TraceId(t), SpanId(s)).sampled(b);
                let e = c.encode_w3c_traceparent();
                let d = SpanContext::decode_w3c_traceparent(&e);
                (e, d)
            }));
            match r {
                Ok((e, d)) => format!("{} {}", hex_bytes(e.as_bytes()), ctx_line(&d)),
                Err(_) => "panic".into(),
            }
        }
        "dec" => {
            let bytes = unhex(args[0]);
            let s = String::from_utf8(bytes).unwrap();
            run_dec(&s)
        }
        "idt" => {
            // Display, FromStr of it, serde string, serde back
            let t = u128::from_str_radix(args[0], 16).unwrap();
            let r = catch_unwind(AssertUnwindSafe(|| {
                let id = TraceId(t);
                let d = id.to_string();
                let f: Option<u128> = d.parse::<TraceId>().ok().map(|x| x.0);
                let js = serde_json::to_string(&id).unwrap();
                let back: Option<u128> = de_all_routes::<TraceId>(&js).map(|x| x.0);
                (d, f, js, back)
            }));
            match r {
                Ok((d, f, js, back)) => format!("{} {} {} {}", hex_bytes(d.as_bytes()), opt_hex(f), hex_bytes(js.as_bytes()), opt_hex(back)),
                Err(_) => "panic".into(),
            }
        }
        "ids" => {
            let t = u64::from_str_radix(args[0], 16).unwrap();
            let r = catch_unwind(AssertUnwindSafe(|| {
                let id = SpanId(t);
                let d = id.to_string();
                let f: Option<u64> = d.parse::<SpanId>().ok().map(|x| x.0);
                let js = serde_json::to_string(&id).unwrap();
                let back: Option<u64> = de_all_routes::<SpanId>(&js).map(|x| x.0);
                (d, f, js, back)
            }));
            match r {
                Ok((d, f, js, back)) => format!("{} {} {} {}", hex_bytes(d.as_bytes()), opt_hex(f), hex_bytes(js.as_bytes()), opt_hex(back)),
                Err(_) => "panic".into(),
            }
        }
        "fst" => {
            let s = String::from_utf8(unhex(args[0])).unwrap();
            match catch_unwind(AssertUnwindSafe(|| s.parse::<TraceId>().ok().map(|x| x.0))) {
                Ok(v) => opt_hex(v),
                Err(_) => "panic".into(),
            }
        }
        "fss" => {
            let s = String::from_utf8(unhex(args[0])).unwrap();
            match catch_unwind(AssertUnwindSafe(|| s.parse::<SpanId>().ok().map(|x| x.0))) {
                Ok(v) => opt_hex(v),
                Err(_) => "panic".into(),
            }
        }
        _ => "unknown".into(),
    }
}

pub fn replay(path: &str, out: &mut dyn Write) {
    let text = std::fs::read_to_string(path).expect("replay file");
    for line in text.lines() {
        if line.starts_with('#') || line.trim().is_empty() { continue; }
        let lhs = line.split(" => ").next().unwrap();
        let toks: Vec<&str> = lhs.split_whitespace().collect();
        let res = run_case(toks[0], &toks[1..]);
        writeln!(out, "{} => {}", lhs, res).unwrap();
    }
}

pub fn generate(seed: u64, n: usize, out: &mut dyn Write) {
    let mut r = Rng::new(seed);
    let mut stats: BTreeMap<String, u64> = BTreeMap::new();
    let mut bump = |k: String| *stats.entry(k).or_insert(0) += 1;
    // fixed corner cases first
    let fixed: Vec<String> = vec![
        "00-0af7651916cd43dd8448eb211c80319c-b7ad6b7169203331-01".into(),
        "00-+1-+2-+1".into(),
        "".into(), "-".into(), "---".into(), "----".into(), "00---".into(),
        "00-0-0-0".into(), "00-1-1-ff".into(), "00-1-1-100".into(), "00-1-1-0ff".into(),
        "00-ffffffffffffffffffffffffffffffff-ffffffffffffffff-ff".into(),
        "00-100000000000000000000000000000000-1-1".into(),
        "00-0ffffffffffffffffffffffffffffffff-00000000000000000ffffffffffffffff-000001".into(),
        "00-1-10000000000000000-1".into(),
        "00-AbCdEf-aBcDeF-0F".into(),
        "00-1-1-+".into(), "00-+-1-1".into(), "00-1-+-1".into(), "00--1-1".into(),
        "00-1-1-1-".into(), "00-1-1-1-1".into(), "0-1-1-1".into(), "000-1-1-1".into(), "01-1-1-1".into(),
        "00-é-1-1".into(), "00-1-１-1".into(), " 00-1-1-1".into(), "00-1-1-1 ".into(), "00-0x1-1-1".into(),
        "00-1-1--1".into(), "00-1-1-1\n".into(), "00-ｆ-1-1".into(),
    ];
    let mut emit = |kind: &str, args: Vec<String>, out: &mut dyn Write, bump: &mut dyn FnMut(String)| {
        let a: Vec<&str> = args.iter().map(|s| s.as_str()).collect();
        let res = run_case(kind, &a);
        let class = res.split_whitespace().next().unwrap_or("").to_string();
        let class = if kind == "dec" || kind == "fst" || kind == "fss" { class } else if class == "panic" { class } else { "ok".into() };
        bump(format!("{}:{}", kind, class));
        writeln!(out, "{} {} => {}", kind, args.join(" "), res).unwrap();
    };
    for s in &fixed {
        emit("dec", vec![hex_bytes(s.as_bytes())], out, &mut bump);
    }
    for i in 0..n {
        match i % 10 {
            0 | 1 => {
                let t = interesting_u128(&mut r); let s = interesting_u64(&mut r); let b = r.chance(1, 2);
                emit("rt", vec![format!("{:x}", t), format!("{:x}", s), (b as u8).to_string()], out, &mut bump);
            }
            2 => {
                let t = interesting_u128(&mut r);
                emit("idt", vec![format!("{:x}", t)], out, &mut bump);
                let s = interesting_u64(&mut r);
                emit("ids", vec![format!("{:x}", s)], out, &mut bump);
            }
            3 => {
                let f = if r.chance(1, 2) { hexfield(&mut r, 32) } else { let v = format!("{:032x}", interesting_u128(&mut r)); mutate(&mut r, &v) };
                emit("fst", vec![hex_bytes(f.as_bytes())], out, &mut bump);
                let f = if r.chance(1, 2) { hexfield(&mut r, 16) } else { let v = format!("{:016x}", interesting_u64(&mut r)); mutate(&mut r, &v) };
                emit("fss", vec![hex_bytes(f.as_bytes())], out, &mut bump);
            }
            4 | 5 | 6 => {
                // single/double edit mutants of a valid encoding
                let c = SpanContext::new(TraceId(interesting_u128(&mut r)), SpanId(interesting_u64(&mut r))).sampled(r.chance(1, 2));
                let e = c.encode_w3c_traceparent();
                let m = mutate(&mut r, &e);
                emit("dec", vec![hex_bytes(m.as_bytes())], out, &mut bump);
            }
            7 | 8 => {
                let s = structured(&mut r);
                emit("dec", vec![hex_bytes(s.as_bytes())], out, &mut bump);
            }
            _ => {
                let s = random_string(&mut r);
                emit("dec", vec![hex_bytes(s.as_bytes())], out, &mut bump);
            }
        }
    }
    for (k, v) in stats { writeln!(out, "#stat {} {}", k, v).unwrap(); }
}

/// serde back through every kind of deserializer serde_json offers: borrowed text, a reader
/// (owned strings), a `Value` tree, and text in which every character is a \u escape (so the
/// string cannot be borrowed from the input).  All routes must succeed and agree.
fn de_all_routes<T: serde::de::DeserializeOwned + PartialEq>(js: &str) -> Option<T> {
    let a: T = serde_json::from_str(js).ok()?;
    let b: T = serde_json::from_reader(js.as_bytes()).ok()?;
    let v: serde_json::Value = serde_json::from_str(js).ok()?;
    let c: T = serde_json::from_value(v).ok()?;
    let inner = js.trim_matches('"');
    let escaped: String = std::iter::once("\"".to_string())
        .chain(inner.chars().map(|ch| format!("\\u{:04x}", ch as u32)))
        .chain(std::iter::once("\"".to_string()))
        .collect();
    let d: T = serde_json::from_str(&escaped).ok()?;
    if a == b && b == c && c == d { Some(a) } else { None }
}
