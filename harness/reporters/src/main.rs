mod jaeger;
mod others;
mod rng;

use std::io::Write;

fn arg<'a>(args: &'a [String], key: &str) -> Option<&'a str> {
    args.iter().position(|a| a == key).and_then(|i| args.get(i + 1)).map(|s| s.as_str())
}

fn main() {
    let args: Vec<String> = std::env::args().collect();
    let cmd = args.get(1).map(|s| s.as_str()).unwrap_or("");
    let seed: u64 = arg(&args, "--seed").and_then(|s| s.parse().ok()).unwrap_or(1);
    let n: usize = arg(&args, "--n").and_then(|s| s.parse().ok()).unwrap_or(100);
    let outp = arg(&args, "--out");
    let mut out: Box<dyn Write> = match outp {
        Some(p) => Box::new(std::io::BufWriter::new(std::fs::File::create(p).expect("create out"))),
        None => Box::new(std::io::BufWriter::new(std::io::stdout())),
    };
    if std::env::var("VH_PANICS").is_err() {
        std::panic::set_hook(Box::new(|_| {}));
    }
    match cmd {
        "jaeger" => match arg(&args, "--replay") {
            Some(p) => jaeger::replay(p, &mut *out),
            None => jaeger::generate(seed, n, &mut *out),
        },
        "datadog" => others::datadog(seed, n, &mut *out),
        "otel" => others::otel(seed, n, &mut *out),
        _ => {
            eprintln!("usage: vreporters jaeger [--seed N] [--n N] [--out FILE] [--replay FILE]");
            std::process::exit(2);
        }
    }
    out.flush().unwrap();
}
