//! C19 / C20 correspondence stream for the Jaeger reporter: generated record batches are
//! handed to the real JaegerReporter, the datagrams are captured on a loopback UDP socket,
//! and every case is printed as `J <service> <records> => <datagrams>` for the model.
use std::borrow::Cow;
use std::io::Write;
use std::net::UdpSocket;
use std::panic::{catch_unwind, AssertUnwindSafe};

use fastrace::collector::{EventRecord, Reporter, SpanRecord};
use fastrace::prelude::*;
use fastrace_jaeger::JaegerReporter;

use crate::rng::{end_after_hang, guarded, Outcome, hex_bytes, unhex, Rng};

fn rand_string(r: &mut Rng, max: usize) -> String {
    let n = match r.below(10) {
        0 => 0,
        1 => max,
        2 | 3 => r.below(max + 1),
        _ => r.below(12.min(max + 1)),
    };
    let mut s = String::new();
    while s.len() < n {
        match r.below(12) {
            0 => s.push('é'),
            1 => s.push('値'),
            2 => s.push('🙂'),
            3 => s.push('\u{0}'),
            4 => s.push('"'),
            _ => s.push((b'a' + r.below(26) as u8) as char),
        }
    }
    // cut at a char boundary not above n
    let mut cut = n.min(s.len());
    while !s.is_char_boundary(cut) {
        cut -= 1;
    }
    s.truncate(cut);
    s
}

fn rand_u64(r: &mut Rng) -> u64 {
    match r.below(8) {
        0 => 0,
        1 => u64::MAX,
        2 => 1u64 << 63,
        3 => (1u64 << 63) - 1,
        4 => r.below(1000) as u64,
        5 => r.next() >> (r.below(64) as u32),
        _ => r.next(),
    }
}

fn rand_u128(r: &mut Rng) -> u128 {
    match r.below(6) {
        0 => 0,
        1 => u128::MAX,
        2 => (rand_u64(r) as u128) << 64,
        3 => rand_u64(r) as u128,
        _ => ((rand_u64(r) as u128) << 64) | rand_u64(r) as u128,
    }
}

fn rand_props(r: &mut Rng, maxn: usize, maxlen: usize) -> Vec<(Cow<'static, str>, Cow<'static, str>)> {
    let n = r.below(maxn + 1);
    (0..n).map(|_| (Cow::Owned(rand_string(r, 10)), Cow::Owned(rand_string(r, maxlen)))).collect()
}

fn rand_record(r: &mut Rng, big: usize) -> SpanRecord {
    let ne = if r.chance(1, 4) { r.below(4) } else { 0 };
    SpanRecord {
        trace_id: TraceId(rand_u128(r)),
        span_id: SpanId(rand_u64(r)),
        parent_id: SpanId(rand_u64(r)),
        begin_time_unix_ns: rand_u64(r),
        duration_ns: rand_u64(r),
        name: Cow::Owned(rand_string(r, big)),
        properties: { let ml = if r.chance(1, 6) { big } else { 20 }; rand_props(r, 3, ml) },
        events: (0..ne)
            .map(|_| EventRecord {
                name: Cow::Owned(rand_string(r, 12)),
                timestamp_unix_ns: rand_u64(r),
                properties: rand_props(r, 2, 12),
            })
            .collect(),
    }
}

/// a random record whose times are realistic (unix nanoseconds of this century): the Datadog
/// and OpenTelemetry conversions add / cast them
pub fn rand_record_realistic(r: &mut Rng, big: bool) -> SpanRecord {
    let mut rec = rand_record(r, if big { 2000 } else { 30 });
    rec.begin_time_unix_ns = 1_600_000_000_000_000_000 + (r.next() % 400_000_000_000_000_000);
    rec.duration_ns = match r.below(4) { 0 => 0, 1 => r.next() % 1000, _ => r.next() % 10_000_000_000 };
    for e in rec.events.iter_mut() {
        e.timestamp_unix_ns = rec.begin_time_unix_ns + r.next() % (rec.duration_ns + 1);
    }
    rec
}

fn plain_record(r: &mut Rng, name_len: usize) -> SpanRecord {
    SpanRecord {
        trace_id: TraceId(r.below(5) as u128 + 1),
        span_id: SpanId(r.below(1000) as u64 + 1),
        parent_id: SpanId(r.below(1000) as u64),
        begin_time_unix_ns: 1_700_000_000_000_000_000 + r.below(1_000_000) as u64,
        duration_ns: r.below(1_000_000) as u64,
        name: Cow::Owned("x".repeat(name_len)),
        properties: vec![],
        events: vec![],
    }
}

/// the batches of one run: random ones, boundary sweeps around the datagram limit, oversize
/// spans at every position
fn gen_batch(r: &mut Rng, k: usize) -> Vec<SpanRecord> {
    match k % 8 {
        0 => {
            // one span whose size sweeps across the limit byte by byte
            let len = 7880 + (k / 8) % 140;
            vec![plain_record(r, len)]
        }
        1 => {
            // several mid-size spans whose sum straddles the limit
            let n = 2 + r.below(6);
            let each = 8000 / n;
            (0..n).map(|_| { let l = each.saturating_sub(60) + r.below(60); plain_record(r, l) }).collect()
        }
        2 => {
            // oversize span(s) at random positions among small ones
            let n = 1 + r.below(12);
            let pos = r.below(n);
            let pos2 = r.below(n);
            (0..n)
                .map(|i| {
                    if i == pos || (i == pos2 && r.chance(1, 3)) {
                        // now and then one whose encoding is just past 64 KiB (the size does not fit 16 bits)
                        { let l = if r.chance(1, 4) { 65400 + r.below(7000) } else { 7900 + r.below(20000) }; plain_record(r, l) }
                    } else {
                        { let l = r.below(40); plain_record(r, l) }
                    }
                })
                .collect()
        }
        3 => {
            // many small spans (several datagrams); sometimes more than 64 KiB in all
            let n = if r.chance(1, 5) { 900 + r.below(400) } else { r.below(400) };
            (0..n).map(|_| { let l = r.below(30); plain_record(r, l) }).collect()
        }
        4 => vec![],
        5 => {
            // 14 / 15 / 16 elements: the long form of the list header
            let n = 13 + r.below(5);
            (0..n).map(|_| rand_record(r, 30)).collect()
        }
        _ => {
            let n = r.below(20);
            let big = if r.chance(1, 5) { 3000 } else { 40 };
            (0..n).map(|_| rand_record(r, big)).collect()
        }
    }
}

fn fmt_props(ps: &[(Cow<'static, str>, Cow<'static, str>)]) -> String {
    let mut s = format!("{}", ps.len());
    for (k, v) in ps {
        s.push_str(&format!(" {} {}", hex_bytes(k.as_bytes()), hex_bytes(v.as_bytes())));
    }
    s
}

pub fn fmt_record(r: &SpanRecord) -> String {
    let mut s = format!(
        "{:x} {:x} {:x} {} {} {} {} {}",
        r.trace_id.0,
        r.span_id.0,
        r.parent_id.0,
        r.begin_time_unix_ns,
        r.duration_ns,
        hex_bytes(r.name.as_bytes()),
        fmt_props(&r.properties),
        r.events.len()
    );
    for e in &r.events {
        s.push_str(&format!(" {} {} {}", hex_bytes(e.name.as_bytes()), e.timestamp_unix_ns, fmt_props(&e.properties)));
    }
    s
}

fn parse_props(t: &mut std::slice::Iter<'_, &str>) -> Vec<(Cow<'static, str>, Cow<'static, str>)> {
    let n: usize = t.next().unwrap().parse().unwrap();
    (0..n)
        .map(|_| {
            let k = String::from_utf8(unhex(t.next().unwrap())).unwrap();
            let v = String::from_utf8(unhex(t.next().unwrap())).unwrap();
            (Cow::Owned(k), Cow::Owned(v))
        })
        .collect()
}

fn parse_record(t: &mut std::slice::Iter<'_, &str>) -> SpanRecord {
    let trace = u128::from_str_radix(t.next().unwrap(), 16).unwrap();
    let id = u64::from_str_radix(t.next().unwrap(), 16).unwrap();
    let parent = u64::from_str_radix(t.next().unwrap(), 16).unwrap();
    let begin: u64 = t.next().unwrap().parse().unwrap();
    let dur: u64 = t.next().unwrap().parse().unwrap();
    let name = String::from_utf8(unhex(t.next().unwrap())).unwrap();
    let props = parse_props(t);
    let ne: usize = t.next().unwrap().parse().unwrap();
    let events = (0..ne)
        .map(|_| {
            let name = String::from_utf8(unhex(t.next().unwrap())).unwrap();
            let ts: u64 = t.next().unwrap().parse().unwrap();
            EventRecord { name: Cow::Owned(name), timestamp_unix_ns: ts, properties: parse_props(t) }
        })
        .collect();
    SpanRecord {
        trace_id: TraceId(trace),
        span_id: SpanId(id),
        parent_id: SpanId(parent),
        begin_time_unix_ns: begin,
        duration_ns: dur,
        name: Cow::Owned(name),
        properties: props,
        events,
    }
}

struct Agent {
    sock: UdpSocket,
    marker: UdpSocket,
}

/// The agent goes away for a moment: its socket is closed, the reporter sends a batch into
/// the void (nothing can be claimed for that batch), the agent comes back on the same port.
/// Whatever that did to the reporter, the next report must arrive complete.
fn agent_outage(agent: &mut Agent, service: &str, batch: Vec<SpanRecord>) {
    let addr = agent.sock.local_addr().unwrap();
    let placeholder = UdpSocket::bind("127.0.0.1:0").expect("bind placeholder");
    drop(std::mem::replace(&mut agent.sock, placeholder));
    let svc = service.to_string();
    let _ = guarded(move || {
        let mut slot = HELD.lock().unwrap_or_else(|e| e.into_inner());
        let mut rep = match slot.take() {
            Some((s, rep)) if s == svc => rep,
            _ => JaegerReporter::new(addr, svc.clone()).expect("reporter"),
        };
        rep.report(batch);
        *slot = Some((svc, rep));
    }, 20);
    // time for the kernel to answer the datagrams with "port unreachable"
    std::thread::sleep(std::time::Duration::from_millis(30));
    for _ in 0..200 {
        if let Ok(s) = UdpSocket::bind(addr) {
            s.set_read_timeout(Some(std::time::Duration::from_secs(5))).unwrap();
            agent.sock = s;
            return;
        }
        std::thread::sleep(std::time::Duration::from_millis(5));
    }
    panic!("harness: could not re-bind the agent's port");
}

impl Agent {
    fn new() -> Agent {
        let sock = UdpSocket::bind("127.0.0.1:0").expect("bind agent");
        sock.set_read_timeout(Some(std::time::Duration::from_secs(5))).unwrap();
        let marker = UdpSocket::bind("127.0.0.1:0").expect("bind marker");
        Agent { sock, marker }
    }
    /// everything received up to the end marker
    fn drain(&self) -> Vec<Vec<u8>> {
        self.marker.send_to(b"\x00END-OF-REPORT\x00", self.sock.local_addr().unwrap()).unwrap();
        let mut out = vec![];
        let mut buf = vec![0u8; 70000];
        loop {
            match self.sock.recv_from(&mut buf) {
                Ok((n, _)) => {
                    if &buf[..n] == b"\x00END-OF-REPORT\x00" {
                        return out;
                    }
                    out.push(buf[..n].to_vec());
                }
                Err(_) => {
                    out.push(b"TIMEOUT".to_vec());
                    return out;
                }
            }
        }
    }
}

static HELD: std::sync::Mutex<Option<(String, JaegerReporter)>> = std::sync::Mutex::new(None);

fn run_case(agent: &Agent, service: &str, batch: Vec<SpanRecord>, out: &mut dyn Write) {
    let mut line = format!("J {} {}", hex_bytes(service.as_bytes()), batch.len());
    for r in &batch {
        line.push(' ');
        line.push_str(&fmt_record(r));
    }
    let addr = agent.sock.local_addr().unwrap();
    let svc = service.to_string();
    // a reporter lives as long as the process: consecutive batches for the same service go
    // through the same reporter object
    let res = guarded(move || {
        let mut slot = HELD.lock().unwrap_or_else(|e| e.into_inner());
        let mut rep = match slot.take() {
            Some((s, rep)) if s == svc => rep,
            _ => JaegerReporter::new(addr, svc.clone()).expect("reporter"),
        };
        rep.report(batch);
        *slot = Some((svc, rep));
    }, 20);
    if matches!(res, Outcome::Hung) {
        let _ = writeln!(out, "{} => hang", line);
        end_after_hang(out);
    }
    let dgs = agent.drain();
    let ok = matches!(res, Outcome::Done);
    let mut rhs = if !ok { "panic".to_string() } else { format!("{}", dgs.len()) };
    if ok {
        for d in &dgs {
            rhs.push(' ');
            rhs.push_str(&hex_bytes(d));
        }
    }
    let _ = writeln!(out, "{} => {}", line, rhs);
}

pub fn generate(seed: u64, n: usize, out: &mut dyn Write) {
    let mut agent = Agent::new();
    let mut r = Rng::new(seed);
    let mut nrec = 0usize;
    let mut ndg = 0usize;
    let mut outages = 0usize;
    for k in 0..n {
        let service = match (k / 3) % 5 {
            0 => String::new(),
            1 => "svc-é値".to_string(),
            _ => format!("service-{}", (k / 3) % 7),
        };
        let batch = gen_batch(&mut r, k + (seed as usize % 8));
        nrec += batch.len();
        ndg += 1;
        if k % 3 == 1 && r.below(3) == 0 {
            // between two reports of one reporter
            let lost = vec![plain_record(&mut r, 5), plain_record(&mut r, 9)];
            agent_outage(&mut agent, &service, lost);
            outages += 1;
        }
        run_case(&agent, &service, batch, out);
    }
    let _ = writeln!(out, "#stat agent-outages {}", outages);
    let _ = writeln!(out, "#stat batches {}", ndg);
    let _ = writeln!(out, "#stat records {}", nrec);
}

pub fn replay(path: &str, out: &mut dyn Write) {
    let agent = Agent::new();
    let text = std::fs::read_to_string(path).expect("read replay");
    for line in text.lines() {
        if !line.starts_with("J ") {
            continue;
        }
        let lhs = line.split(" => ").next().unwrap();
        let toks: Vec<&str> = lhs.split_whitespace().collect();
        let mut it = toks[1..].iter();
        let service = String::from_utf8(unhex(it.next().unwrap())).unwrap();
        let n: usize = it.next().unwrap().parse().unwrap();
        let batch: Vec<SpanRecord> = (0..n).map(|_| parse_record(&mut it)).collect();
        run_case(&agent, &service, batch, out);
    }
}
