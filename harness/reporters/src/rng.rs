//! splitmix64 / xorshift PRNG: every random choice of a run derives from one seed.
#[derive(Clone)]
pub struct Rng(pub u64);

impl Rng {
    pub fn new(seed: u64) -> Self {
        let mut r = Rng(seed ^ 0x9E37_79B9_7F4A_7C15);
        r.next();
        r
    }
    pub fn next(&mut self) -> u64 {
        self.0 = self.0.wrapping_add(0x9E37_79B9_7F4A_7C15);
        let mut z = self.0;
        z = (z ^ (z >> 30)).wrapping_mul(0xBF58_476D_1CE4_E5B9);
        z = (z ^ (z >> 27)).wrapping_mul(0x94D0_49BB_1331_11EB);
        z ^ (z >> 31)
    }
    pub fn below(&mut self, n: usize) -> usize {
        if n == 0 { 0 } else { (self.next() % n as u64) as usize }
    }
    pub fn chance(&mut self, num: u64, den: u64) -> bool {
        self.next() % den < num
    }
    pub fn pick<'a, T>(&mut self, xs: &'a [T]) -> &'a T {
        &xs[self.below(xs.len())]
    }
    pub fn u128(&mut self) -> u128 {
        ((self.next() as u128) << 64) | self.next() as u128
    }
    /// index chosen by integer weights
    pub fn weighted(&mut self, ws: &[u32]) -> usize {
        let total: u64 = ws.iter().map(|w| *w as u64).sum();
        if total == 0 { return 0; }
        let mut x = self.next() % total;
        for (i, w) in ws.iter().enumerate() {
            if x < *w as u64 { return i; }
            x -= *w as u64;
        }
        ws.len() - 1
    }
}

pub fn hex_bytes(b: &[u8]) -> String {
    if b.is_empty() { return "-".to_string(); }
    let mut s = String::with_capacity(b.len() * 2);
    for x in b { s.push_str(&format!("{:02x}", x)); }
    s
}

pub fn unhex(s: &str) -> Vec<u8> {
    if s == "-" { return vec![]; }
    (0..s.len() / 2).map(|i| u8::from_str_radix(&s[2 * i..2 * i + 2], 16).unwrap()).collect()
}

/// Runs one reporter call on its own thread with a watchdog: a call that has not returned
/// after `secs` seconds is reported as hung (the property says it terminates) instead of
/// stalling the whole check.
pub enum Outcome {
    Done,
    Panicked,
    Hung,
}
pub fn guarded<F: FnOnce() + Send + 'static>(f: F, secs: u64) -> Outcome {
    let (tx, rx) = std::sync::mpsc::channel();
    std::thread::spawn(move || {
        let r = std::panic::catch_unwind(std::panic::AssertUnwindSafe(f));
        let _ = tx.send(r.is_err());
    });
    match rx.recv_timeout(std::time::Duration::from_secs(secs)) {
        Ok(false) => Outcome::Done,
        Ok(true) => Outcome::Panicked,
        Err(_) => Outcome::Hung,
    }
}
/// a hung call cannot be cancelled: record it, flush and end this shard
pub fn end_after_hang(out: &mut dyn std::io::Write) -> ! {
    let _ = writeln!(out, "#stat hung-calls 1");
    let _ = out.flush();
    std::process::exit(0);
}
