//! C19 correspondence streams for the Datadog reporter (body captured by a loopback HTTP
//! listener) and the OpenTelemetry reporter (SpanData captured by an in-process exporter).
use std::borrow::Cow;
use std::io::{Read, Write};
use std::net::TcpListener;
use std::sync::{Arc, Mutex};

use fastrace::collector::{EventRecord, Reporter, SpanRecord};
use fastrace::prelude::*;

use crate::jaeger::{fmt_record, rand_record_realistic};
use crate::rng::{end_after_hang, guarded, Outcome, hex_bytes, Rng};

// ---------------------------------------------------------------- Datadog
// the request is recorded BEFORE the response is written: the reporter returns as soon as it has
// the response, and the harness reads the capture right after that
fn read_request(stream: &mut std::net::TcpStream, cap: &Mutex<Vec<(String, Vec<u8>)>>) -> Option<()> {
    stream.set_read_timeout(Some(std::time::Duration::from_secs(5))).ok()?;
    let mut buf: Vec<u8> = vec![];
    let mut tmp = [0u8; 65536];
    let mut header_end = None;
    loop {
        let n = stream.read(&mut tmp).ok()?;
        if n == 0 {
            break;
        }
        buf.extend_from_slice(&tmp[..n]);
        if header_end.is_none() {
            if let Some(p) = buf.windows(4).position(|w| w == b"\r\n\r\n") {
                header_end = Some(p + 4);
            }
        }
        if let Some(he) = header_end {
            let head = String::from_utf8_lossy(&buf[..he]).to_string();
            let cl = head
                .lines()
                .find_map(|l| {
                    let ll = l.to_ascii_lowercase();
                    ll.strip_prefix("content-length:").map(|v| v.trim().parse::<usize>().unwrap_or(0))
                })
                .unwrap_or(0);
            if buf.len() >= he + cl {
                let body = buf[he..he + cl].to_vec();
                cap.lock().unwrap().push((head, body));
                let _ = stream.write_all(b"HTTP/1.1 200 OK\r\nContent-Length: 2\r\nConnection: close\r\n\r\n{}");
                return Some(());
            }
        }
    }
    None
}

pub fn datadog(seed: u64, n: usize, out: &mut dyn std::io::Write) {
    let listener = TcpListener::bind("127.0.0.1:0").expect("bind");
    let addr = listener.local_addr().unwrap();
    let captured: Arc<Mutex<Vec<(String, Vec<u8>)>>> = Arc::new(Mutex::new(vec![]));
    let cap2 = captured.clone();
    std::thread::spawn(move || {
        for conn in listener.incoming() {
            if let Ok(mut s) = conn {
                let _ = read_request(&mut s, &cap2);
            }
        }
    });
    let mut r = Rng::new(seed);
    let mut nrec = 0;
    for k in 0..n {
        let service = match k % 4 { 0 => "", 1 => "svc-é値", _ => "service" };
        let resource = match k % 3 { 0 => "res", 1 => "", _ => "GET /a/値" };
        let ty = match k % 2 { 0 => "web", _ => "" };
        let nb = match k % 6 { 0 => 0, 1 => 1, 2 => 15 + r.below(3), 3 => 300, _ => r.below(12) };
        let batch: Vec<SpanRecord> = (0..nb).map(|_| rand_record_realistic(&mut r, k % 5 == 4)).collect();
        nrec += batch.len();
        let mut line = format!("D {} {} {} {}", hex_bytes(service.as_bytes()), hex_bytes(resource.as_bytes()), hex_bytes(ty.as_bytes()), batch.len());
        for rec in &batch {
            line.push(' ');
            line.push_str(&fmt_record(rec));
        }
        captured.lock().unwrap().clear();
        let res = guarded(move || {
            let mut rep = fastrace_datadog::DatadogReporter::new(addr, service, resource, ty);
            rep.report(batch);
        }, 30);
        if matches!(res, Outcome::Hung) {
            let _ = writeln!(out, "{} => hang", line);
            end_after_hang(out);
        }
        let got = captured.lock().unwrap().clone();
        let rhs = if !matches!(res, Outcome::Done) {
            "panic".to_string()
        } else {
            let mut s = format!("{}", got.len());
            for (head, body) in &got {
                let first = head.lines().next().unwrap_or("").replace(' ', "_");
                let ct = head.lines().find(|l| l.to_ascii_lowercase().starts_with("content-type:")).map(|l| l.split(':').nth(1).unwrap_or("").trim().to_string()).unwrap_or_default();
                s.push_str(&format!(" {} {} {}", first, ct, hex_bytes(body)));
            }
            s
        };
        let _ = writeln!(out, "{} => {}", line, rhs);
    }
    let _ = writeln!(out, "#stat dd-batches {}", n);
    let _ = writeln!(out, "#stat dd-records {}", nrec);
}

// ---------------------------------------------------------------- OpenTelemetry
#[derive(Debug, Clone)]
struct CapExporter(Arc<Mutex<Vec<Vec<opentelemetry_sdk::trace::SpanData>>>>);
impl opentelemetry_sdk::trace::SpanExporter for CapExporter {
    fn export(&self, batch: Vec<opentelemetry_sdk::trace::SpanData>) -> impl std::future::Future<Output = opentelemetry_sdk::error::OTelSdkResult> + Send {
        self.0.lock().unwrap().push(batch);
        std::future::ready(Ok(()))
    }
}

fn ns_of(t: std::time::SystemTime) -> u128 {
    t.duration_since(std::time::UNIX_EPOCH).map(|d| d.as_nanos()).unwrap_or(0)
}

fn fmt_kvs(kvs: &[opentelemetry::KeyValue]) -> String {
    let mut s = format!("{}", kvs.len());
    for kv in kvs {
        s.push_str(&format!(" {} {}", hex_bytes(kv.key.as_str().as_bytes()), hex_bytes(kv.value.as_str().as_bytes())));
    }
    s
}

pub fn otel(seed: u64, n: usize, out: &mut dyn std::io::Write) {
    let mut r = Rng::new(seed);
    let mut nrec = 0;
    for k in 0..n {
        // sizes around the OTel SDK's customary export batch of 512 included: every record of a
        // large report must still be exported exactly once
        let nb = match k % 12 { 0 => 0, 1 => 1, 2 => 40, 7 => 511 + r.below(4), 11 => 1000 + r.below(1100), _ => r.below(10) };
        let batch: Vec<SpanRecord> = (0..nb).map(|_| rand_record_realistic(&mut r, false)).collect();
        nrec += batch.len();
        let mut line = format!("O {}", batch.len());
        for rec in &batch {
            line.push(' ');
            line.push_str(&fmt_record(rec));
        }
        let cap = Arc::new(Mutex::new(vec![]));
        let cap2 = cap.clone();
        let res = guarded(move || {
            let mut rep = fastrace_opentelemetry::OpenTelemetryReporter::new(
                CapExporter(cap2),
                opentelemetry::trace::SpanKind::Server,
                Cow::Owned(opentelemetry_sdk::Resource::builder().build()),
                opentelemetry::InstrumentationScope::builder("verif").build(),
            );
            rep.report(batch);
        }, 30);
        if matches!(res, Outcome::Hung) {
            let _ = writeln!(out, "{} => hang", line);
            end_after_hang(out);
        }
        let got = cap.lock().unwrap().clone();
        let rhs = if !matches!(res, Outcome::Done) {
            "panic".to_string()
        } else {
            let mut s = format!("{}", got.len());
            for b in &got {
                s.push_str(&format!(" {}", b.len()));
                for sd in b {
                    s.push_str(&format!(
                        " {:x} {:x} {:x} {} {} {} {} {} {} {:?} {}",
                        u128::from_be_bytes(sd.span_context.trace_id().to_bytes()),
                        u64::from_be_bytes(sd.span_context.span_id().to_bytes()),
                        u64::from_be_bytes(sd.parent_span_id.to_bytes()),
                        hex_bytes(sd.name.as_bytes()),
                        ns_of(sd.start_time),
                        ns_of(sd.end_time),
                        fmt_kvs(&sd.attributes),
                        sd.dropped_attributes_count,
                        sd.links.links.len(),
                        sd.span_kind,
                        sd.events.events.len()
                    ));
                    for e in &sd.events.events {
                        s.push_str(&format!(" {} {} {}", hex_bytes(e.name.as_bytes()), ns_of(e.timestamp), fmt_kvs(&e.attributes)));
                    }
                }
            }
            s
        };
        let _ = writeln!(out, "{} => {}", line, rhs);
    }
    let _ = writeln!(out, "#stat otel-batches {}", n);
    let _ = writeln!(out, "#stat otel-records {}", nrec);
    let _ = EventRecord::default();
    let _ = TraceId(0);
}
