//! C19 correspondence streams for the Datadog reporter (body captured by a loopback HTTP
//! listener) and the OpenTelemetry reporter (SpanData captured by an in-process exporter).
use std::borrow::Cow;
use std::io::{Read, Write};
use std::net::TcpListener;
use std::sync::{Arc, Mutex};

use fastrace::collector::{EventRecord, Reporter, SpanRecord};
use fastrace::prelude::*;

use crate::jaeger::{fmt_record, rand_record_realistic};
use crate::rng::{end_after_hang, guarded, Outcome, hex_bytes, Rng};

// ---------------------------------------------------------------- Datadog
// the request is recorded BEFORE the response is written: the reporter returns as soon as it has
// the response, and the harness reads the capture right after that
/// how the fake agent answers the next request: 0 = 200, 1 = no answer (the connection is closed
/// once the request has been read), 2 = 500
static AGENT_MODE: std::sync::atomic::AtomicU8 = std::sync::atomic::AtomicU8::new(0);

fn read_request(stream: &mut std::net::TcpStream, cap: &Mutex<Vec<(String, Vec<u8>)>>) -> Option<()> {
    stream.set_read_timeout(Some(std::time::Duration::from_secs(5))).ok()?;
    let mut buf: Vec<u8> = vec![];
    let mut tmp = [0u8; 65536];
    let mut header_end = None;
    loop {
        let n = stream.read(&mut tmp).ok()?;
        if n == 0 {
            break;
        }
        buf.extend_from_slice(&tmp[..n]);
        if header_end.is_none() {
            if let Some(p) = buf.windows(4).position(|w| w == b"\r\n\r\n") {
                header_end = Some(p + 4);
            }
        }
        if let Some(he) = header_end {
            let head = String::from_utf8_lossy(&buf[..he]).to_string();
            let cl = head
                .lines()
                .find_map(|l| {
                    let ll = l.to_ascii_lowercase();
                    ll.strip_prefix("content-length:").map(|v| v.trim().parse::<usize>().unwrap_or(0))
                })
                .unwrap_or(0);
            if buf.len() >= he + cl {
                let body = buf[he..he + cl].to_vec();
                cap.lock().unwrap().push((head, body));
                match AGENT_MODE.load(std::sync::atomic::Ordering::SeqCst) {
                    1 => {}
                    2 => {
                        let _ = stream.write_all(b"HTTP/1.1 500 Internal Server Error\r\nContent-Length: 2\r\nConnection: close\r\n\r\n{}");
                    }
                    _ => {
                        let _ = stream.write_all(b"HTTP/1.1 200 OK\r\nContent-Length: 2\r\nConnection: close\r\n\r\n{}");
                    }
                }
                return Some(());
            }
        }
    }
    None
}

pub fn datadog(seed: u64, n: usize, out: &mut dyn std::io::Write) {
    let listener = TcpListener::bind("127.0.0.1:0").expect("bind");
    let addr = listener.local_addr().unwrap();
    let captured: Arc<Mutex<Vec<(String, Vec<u8>)>>> = Arc::new(Mutex::new(vec![]));
    let cap2 = captured.clone();
    std::thread::spawn(move || {
        for conn in listener.incoming() {
            if let Ok(mut s) = conn {
                let _ = read_request(&mut s, &cap2);
            }
        }
    });
    let mut r = Rng::new(seed);
    let mut nrec = 0;
    // one reporter serves up to four consecutive batches (a reporter lives as long as the
    // process); the agent sometimes fails to answer or answers 500 -- whatever happened to
    // one request, the next one must be complete and well-formed again
    let holder: Arc<Mutex<Option<fastrace_datadog::DatadogReporter>>> = Arc::new(Mutex::new(None));
    let mut modes = [0u64; 3];
    for k in 0..n {
        let sess = k / 4;
        let service = match sess % 4 { 0 => "", 1 => "svc-é値", _ => "service" };
        let resource = match sess % 3 { 0 => "res", 1 => "", _ => "GET /a/値" };
        let ty = match sess % 2 { 0 => "web", _ => "" };
        if k % 4 == 0 {
            *holder.lock().unwrap_or_else(|e| e.into_inner()) = None;
        }
        let mode: u8 = match r.below(6) { 0 => 1, 1 => 2, _ => 0 };
        modes[mode as usize] += 1;
        AGENT_MODE.store(mode, std::sync::atomic::Ordering::SeqCst);
        let nb = match k % 6 { 0 => 0, 1 => 1, 2 => 15 + r.below(3), 3 => 300, _ => r.below(12) };
        let batch: Vec<SpanRecord> = (0..nb).map(|_| rand_record_realistic(&mut r, k % 5 == 4)).collect();
        nrec += batch.len();
        let mut line = format!("D {} {} {} {}", hex_bytes(service.as_bytes()), hex_bytes(resource.as_bytes()), hex_bytes(ty.as_bytes()), batch.len());
        for rec in &batch {
            line.push(' ');
            line.push_str(&fmt_record(rec));
        }
        captured.lock().unwrap().clear();
        let h2 = holder.clone();
        let res = guarded(move || {
            let mut slot = h2.lock().unwrap_or_else(|e| e.into_inner());
            let mut rep = slot.take().unwrap_or_else(|| fastrace_datadog::DatadogReporter::new(addr, service, resource, ty));
            rep.report(batch);
            *slot = Some(rep);
        }, 30);
        if matches!(res, Outcome::Hung) {
            let _ = writeln!(out, "{} => hang", line);
            end_after_hang(out);
        }
        let got = captured.lock().unwrap().clone();
        let rhs = if !matches!(res, Outcome::Done) {
            "panic".to_string()
        } else {
            let mut s = format!("{}", got.len());
            for (head, body) in &got {
                let first = head.lines().next().unwrap_or("").replace(' ', "_");
                let ct = head.lines().find(|l| l.to_ascii_lowercase().starts_with("content-type:")).map(|l| l.split(':').nth(1).unwrap_or("").trim().to_string()).unwrap_or_default();
                s.push_str(&format!(" {} {} {}", first, ct, hex_bytes(body)));
            }
            s
        };
        let _ = writeln!(out, "{} => {}", line, rhs);
    }
    let _ = writeln!(out, "#stat dd-agent-ok {}", modes[0]);
    let _ = writeln!(out, "#stat dd-agent-no-answer {}", modes[1]);
    let _ = writeln!(out, "#stat dd-agent-500 {}", modes[2]);
    let _ = writeln!(out, "#stat dd-batches {}", n);
    let _ = writeln!(out, "#stat dd-records {}", nrec);
}

// ---------------------------------------------------------------- OpenTelemetry
static EXPORT_FAILS: std::sync::atomic::AtomicBool = std::sync::atomic::AtomicBool::new(false);
#[derive(Debug, Clone)]
struct CapExporter(Arc<Mutex<Vec<Vec<opentelemetry_sdk::trace::SpanData>>>>);
impl opentelemetry_sdk::trace::SpanExporter for CapExporter {
    fn export(&self, batch: Vec<opentelemetry_sdk::trace::SpanData>) -> impl std::future::Future<Output = opentelemetry_sdk::error::OTelSdkResult> + Send {
        self.0.lock().unwrap().push(batch);
        // the collector behind the exporter is sometimes unavailable
        if EXPORT_FAILS.load(std::sync::atomic::Ordering::SeqCst) {
            std::future::ready(Err(opentelemetry_sdk::error::OTelSdkError::InternalFailure("collector unavailable".to_string())))
        } else {
            std::future::ready(Ok(()))
        }
    }
}

fn ns_of(t: std::time::SystemTime) -> u128 {
    t.duration_since(std::time::UNIX_EPOCH).map(|d| d.as_nanos()).unwrap_or(0)
}

fn fmt_kvs(kvs: &[opentelemetry::KeyValue]) -> String {
    let mut s = format!("{}", kvs.len());
    for kv in kvs {
        s.push_str(&format!(" {} {}", hex_bytes(kv.key.as_str().as_bytes()), hex_bytes(kv.value.as_str().as_bytes())));
    }
    s
}

pub fn otel(seed: u64, n: usize, out: &mut dyn std::io::Write) {
    let mut r = Rng::new(seed);
    let mut nrec = 0;
    let cap: Arc<Mutex<Vec<Vec<opentelemetry_sdk::trace::SpanData>>>> = Arc::new(Mutex::new(vec![]));
    let holder: Arc<Mutex<Option<fastrace_opentelemetry::OpenTelemetryReporter>>> = Arc::new(Mutex::new(None));
    for k in 0..n {
        // sizes around the OTel SDK's customary export batch of 512 included: every record of a
        // large report must still be exported exactly once
        let nb = match k % 12 { 0 => 0, 1 => 1, 2 => 40, 7 => 511 + r.below(4), 11 => 1000 + r.below(1100), _ => r.below(10) };
        let batch: Vec<SpanRecord> = (0..nb).map(|_| rand_record_realistic(&mut r, false)).collect();
        nrec += batch.len();
        let mut line = format!("O {}", batch.len());
        for rec in &batch {
            line.push(' ');
            line.push_str(&fmt_record(rec));
        }
        // one reporter (and exporter) serves three consecutive reports; one export in six fails
        if k % 3 == 0 {
            *holder.lock().unwrap_or_else(|e| e.into_inner()) = None;
        }
        cap.lock().unwrap().clear();
        EXPORT_FAILS.store(r.below(6) == 0, std::sync::atomic::Ordering::SeqCst);
        let cap2 = cap.clone();
        let h2 = holder.clone();
        let res = guarded(move || {
            let mut slot = h2.lock().unwrap_or_else(|e| e.into_inner());
            let mut rep = slot.take().unwrap_or_else(|| fastrace_opentelemetry::OpenTelemetryReporter::new(
                CapExporter(cap2),
                opentelemetry::trace::SpanKind::Server,
                Cow::Owned(opentelemetry_sdk::Resource::builder().build()),
                opentelemetry::InstrumentationScope::builder("verif").build(),
            ));
            rep.report(batch);
            *slot = Some(rep);
        }, 30);
        if matches!(res, Outcome::Hung) {
            let _ = writeln!(out, "{} => hang", line);
            end_after_hang(out);
        }
        let got = cap.lock().unwrap().clone();
        let rhs = if !matches!(res, Outcome::Done) {
            "panic".to_string()
        } else {
            let mut s = format!("{}", got.len());
            for b in &got {
                s.push_str(&format!(" {}", b.len()));
                for sd in b {
                    s.push_str(&format!(
                        " {:x} {:x} {:x} {} {} {} {} {} {} {:?} {}",
                        u128::from_be_bytes(sd.span_context.trace_id().to_bytes()),
                        u64::from_be_bytes(sd.span_context.span_id().to_bytes()),
                        u64::from_be_bytes(sd.parent_span_id.to_bytes()),
                        hex_bytes(sd.name.as_bytes()),
                        ns_of(sd.start_time),
                        ns_of(sd.end_time),
                        fmt_kvs(&sd.attributes),
                        sd.dropped_attributes_count,
                        sd.links.links.len(),
                        sd.span_kind,
                        sd.events.events.len()
                    ));
                    for e in &sd.events.events {
                        s.push_str(&format!(" {} {} {}", hex_bytes(e.name.as_bytes()), ns_of(e.timestamp), fmt_kvs(&e.attributes)));
                    }
                }
            }
            s
        };
        let _ = writeln!(out, "{} => {}", line, rhs);
    }
    let _ = writeln!(out, "#stat otel-batches {}", n);
    let _ = writeln!(out, "#stat otel-records {}", nrec);
    let _ = EventRecord::default();
    let _ = TraceId(0);
}
