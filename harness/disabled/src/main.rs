//! C16, first half: fastrace built WITHOUT the `enable` feature.  Random programs over the
//! whole public API; every observable must be inert: no reporter call, no thread, no context,
//! no elapsed time, no records, no property closure ever invoked.
mod rng;

use std::future::Future;
use std::io::Write;
use std::pin::Pin;
use std::sync::atomic::{AtomicUsize, Ordering};
use std::sync::{Arc, Mutex};
use std::task::{Context, Poll, Wake, Waker};

use fastrace::collector::{Config, Reporter, SpanRecord};
use fastrace::local::LocalCollector;
use fastrace::prelude::*;

use rng::Rng;

static CLOSURES: AtomicUsize = AtomicUsize::new(0);
static REPORTS: AtomicUsize = AtomicUsize::new(0);

struct CountingReporter;
impl Reporter for CountingReporter {
    fn report(&mut self, _spans: Vec<SpanRecord>) {
        REPORTS.fetch_add(1, Ordering::SeqCst);
    }
}

fn prop() -> (&'static str, &'static str) {
    CLOSURES.fetch_add(1, Ordering::SeqCst);
    ("k", "v")
}

fn threads() -> usize {
    std::fs::read_dir("/proc/self/task").map(|d| d.count()).unwrap_or(0)
}

struct NoWake;
impl Wake for NoWake {
    fn wake(self: Arc<Self>) {}
}

#[fastrace::trace(properties = { "a": "{a}" })]
fn traced_sync(a: u32) -> u32 {
    a + 1
}

#[fastrace::trace(enter_on_poll = true)]
async fn traced_async(a: u32) -> u32 {
    a + 2
}

fn main() {
    let args: Vec<String> = std::env::args().collect();
    let get = |k: &str| args.iter().position(|a| a == k).and_then(|i| args.get(i + 1)).cloned();
    let seed: u64 = get("--seed").and_then(|s| s.parse().ok()).unwrap_or(1);
    let n: usize = get("--n").and_then(|s| s.parse().ok()).unwrap_or(100);
    let mut out: Box<dyn Write> = match get("--out") {
        Some(p) => Box::new(std::io::BufWriter::new(std::fs::File::create(p).unwrap())),
        None => Box::new(std::io::stdout()),
    };
    let t0 = threads();
    let mut r = Rng::new(seed);
    let violations: Arc<Mutex<Vec<String>>> = Arc::new(Mutex::new(vec![]));
    let bad = |what: &str, v: &Arc<Mutex<Vec<String>>>| v.lock().unwrap().push(what.to_string());
    let mut ops: std::collections::BTreeMap<&'static str, u64> = Default::default();
    for k in 0..n {
        let mut spans: Vec<Span> = vec![];
        let mut prog = String::new();
        let len = 5 + r.below(40);
        for _ in 0..len {
            let op = r.below(26);
            let name: &'static str = match op {
                0 => { if k % 3 == 0 { fastrace::set_reporter(CountingReporter, Config::default().cancelable(r.chance(1, 2))); } "set_reporter" }
                1 => { spans.push(Span::root("r", SpanContext::new(TraceId(r.u128()), SpanId(r.next())).sampled(r.chance(2, 3)))); "root" }
                2 => { if let Some(p) = spans.last() { let c = Span::enter_with_parent("c", p); spans.push(c); } "child" }
                3 => { let c = Span::enter_with_parents("m", spans.iter()); spans.push(c); "childn" }
                4 => { spans.push(Span::enter_with_local_parent("cl")); "childl" }
                5 => { if let Some(p) = spans.last() { let _g = p.set_local_parent(); let _l = LocalSpan::enter_with_local_parent("l").with_property(prop); LocalSpan::add_property(prop); LocalSpan::add_event(Event::new("e").with_property(prop));
                        if SpanContext::current_local_parent().is_some() { bad("current_local_parent is Some", &violations); } } "scope" }
                6 => { if let Some(p) = spans.pop() { spans.push(p.with_property(prop).with_properties(|| [prop()])); } "swith" }
                7 => { if let Some(p) = spans.last() { p.add_property(prop); p.add_properties(|| [prop()]); } "saddp" }
                8 => { if let Some(p) = spans.last() { p.add_event(Event::new("ev").with_properties(|| [prop()])); } "saddev" }
                9 => { if let Some(p) = spans.last() { if p.elapsed().is_some() { bad("elapsed is Some", &violations); } } "elapsed" }
                10 => { if let Some(p) = spans.last() { if SpanContext::from_span(p).is_some() { bad("from_span is Some", &violations); } } "from_span" }
                11 => { if let Some(p) = spans.last() { p.cancel(); } "cancel" }
                12 => { spans.pop(); "drop" }
                13 => { let c = LocalCollector::start(); let _l = LocalSpan::enter_with_local_parent("x").with_properties(|| [prop()]); drop(_l); let ls = c.collect();
                        if !ls.to_span_records(SpanContext::random()).is_empty() { bad("to_span_records not empty", &violations); }
                        if let Some(p) = spans.last() { p.push_child_spans(ls); } "collector" }
                14 => { fastrace::flush(); "flush" }
                15 => { if traced_sync(3) != 4 { bad("traced_sync value", &violations); } "trace_sync" }
                16 => { let waker = Waker::from(Arc::new(NoWake)); let mut cx = Context::from_waker(&waker);
                        let mut f: Pin<Box<dyn Future<Output = u32>>> = Box::pin(traced_async(5));
                        if f.as_mut().poll(&mut cx) != Poll::Ready(7) { bad("traced_async value", &violations); } "trace_async" }
                17 => { use fastrace::future::FutureExt; let waker = Waker::from(Arc::new(NoWake)); let mut cx = Context::from_waker(&waker);
                        let sp = spans.pop().unwrap_or_else(Span::noop);
                        let mut f = Box::pin(async { LocalSpan::add_property(prop); 1u8 }.in_span(sp));
                        let _ = f.as_mut().poll(&mut cx); "in_span" }
                18 => { let h = std::thread::spawn(|| { let s = Span::root("t", SpanContext::random()); let _g = s.set_local_parent(); LocalSpan::add_property(prop); SpanContext::current_local_parent().is_some() });
                        if h.join().unwrap_or(true) { bad("context on another thread", &violations); } "thread" }
                19 => { spans.push(Span::noop()); "noop" }
                20 => { if SpanContext::current_local_parent().is_some() { bad("current_local_parent is Some (no scope)", &violations); } "curl" }
                21 => { let _ = SpanContext::random().encode_w3c_traceparent(); "codec" }
                // the remaining public entry points: the deprecated event shims, the plural /
                // singular event-property forms, enter_on_poll
                22 => { #[allow(deprecated)] { if let Some(p) = spans.last() { Event::add_to_parent("old-ev", p, || { let (k, v) = prop(); [(std::borrow::Cow::from(k), std::borrow::Cow::from(v))] }); } Event::add_to_local_parent("old-lev", || { let (k, v) = prop(); [(std::borrow::Cow::from(k), std::borrow::Cow::from(v))] }); } "event_shims" }
                23 => { let ev = Event::new("e2").with_properties(|| [prop(), prop()]).with_property(prop); LocalSpan::add_event(ev);
                        if let Some(p) = spans.last() { p.add_event(Event::new("e3").with_property(prop)); } "event_props" }
                24 => { use fastrace::future::FutureExt; let waker = Waker::from(Arc::new(NoWake)); let mut cx = Context::from_waker(&waker);
                        let mut f = Box::pin(async { LocalSpan::add_properties(|| [prop()]); 2u8 }.enter_on_poll("eop"));
                        let _ = f.as_mut().poll(&mut cx); "enter_on_poll" }
                _ => { let c = LocalCollector::start(); { let _g = spans.last().map(|p| p.set_local_parent()); LocalSpan::add_properties(|| [prop()]); } drop(c); "collector_drop" }
            };
            *ops.entry(name).or_insert(0) += 1;
            prog.push_str(name);
            prog.push(' ');
        }
        drop(spans);
        fastrace::flush();
        if CLOSURES.load(Ordering::SeqCst) != 0 { bad("a property closure was invoked", &violations); }
        if REPORTS.load(Ordering::SeqCst) != 0 { bad("the reporter was called", &violations); }
        // a joined thread may linger in /proc/self/task for a moment after join() returned
        let mut left = threads() > t0;
        let t_wait = std::time::Instant::now();
        while left && t_wait.elapsed() < std::time::Duration::from_millis(500) {
            std::thread::sleep(std::time::Duration::from_millis(2));
            left = threads() > t0;
        }
        if left { bad("a thread was left running", &violations); }
        let v: Vec<String> = std::mem::take(&mut *violations.lock().unwrap());
        let _ = writeln!(out, "Z {} => {}", prog.trim(), if v.is_empty() { "inert".to_string() } else { format!("VIOLATION {}", v.join("; ")) });
    }
    for (k, v) in ops {
        let _ = writeln!(out, "#stat disabled:{} {}", k, v);
    }
}
